//go:build verif

package kernel

import (
	"encoding/hex"
	"fmt"
	"reflect"
	"sort"
	"strings"
	"sync"
	"testing"
	"time"

	"github.com/MixinNetwork/mixin/common"
	"github.com/MixinNetwork/mixin/crypto"
	"github.com/MixinNetwork/mixin/kernel/internal/clock"
	"github.com/MixinNetwork/mixin/verifmc"
	"github.com/MixinNetwork/mixin/verifmc/fixc"
)

// C22 — restart after a crash at any write boundary yields a consistent ledger.
// Four fixed multi-chain scripts (different orders of the chains' steps), each
// driven through the real kernel entry points on an on-disk store and cut at
// EVERY durable commit of the snapshot DB; after each cut: abandon the node,
// reopen, real SetupNode, invariants, then continue the rest of the script and
// compare the final database with the uncut run (differential oracle).

type c22Step struct {
	name string
	run  func(m *mcNode)
}

func c22Deliver(d mcDelivery) c22Step {
	return c22Step{name: d.Name, run: func(m *mcNode) { dd := d; mcDeliver(m, &dd) }}
}

// c22EmptyHeadUpdate delivers, on a chain whose head round is still empty, a
// snapshot that references a different external round: the handler updates the
// empty head round's references (UpdateEmptyHeadRound) and drops the snapshot;
// the peer's re-delivery with the now matching references is then added.
func c22EmptyHeadUpdate(chain, external int, ts time.Duration, ext string) c22Step {
	return c22Step{name: fmt.Sprintf("empty-head-update(ch%d->ch%d)", chain, external), run: func(m *mcNode) {
		ch := m.chainOf(m.Net.NodeIds[chain])
		cache, _ := ch.StateCopy()
		if len(cache.Snapshots) > 0 || cache.Number != 1 {
			return // already past the empty head (re-delivery after a restart)
		}
		ec := m.chainOf(m.Net.NodeIds[external])
		_, ef := ec.StateCopy()
		d := &mcDelivery{Name: "ehu", Chain: chain, TsOffset: ts, Build: mcCrDepositBTC(ext, "2")}
		// first delivery: other external reference -> head references updated, snapshot not added
		mcDeliverWithRefs(m, d, &common.RoundLink{Self: cache.References.Self, External: ef.Hash})
		// re-delivery: references now equal the head's
		mcDeliver(m, d)
	}}
}

func mcDeliverWithRefs(m *mcNode, d *mcDelivery, refs *common.RoundLink) {
	ts := m.Net.Epoch + uint64(mcCrashBase+d.TsOffset)
	chainId := m.Net.NodeIds[d.Chain]
	chain := m.chainOf(chainId)
	txs := d.Build(m, ts)
	for _, tx := range txs {
		if err := m.Store.CacheStoreTransaction(tx); err != nil {
			panic(err)
		}
	}
	cache, _ := chain.StateCopy()
	s := &common.Snapshot{Version: common.SnapshotVersionCommonEncoding, NodeId: chainId, Timestamp: ts, RoundNumber: cache.Number, References: refs}
	for _, tx := range txs {
		s.AddTransaction(tx.PayloadHash())
	}
	s.Hash = s.PayloadHash()
	ids, publics := chain.ConsensusKeys(s.RoundNumber, ts)
	idx := mcSignerSet(ids, chainId, m.Node.ConsensusThreshold(ts, true))
	s.Signature = mcDetCosiSign(m.Net, publics, idx, s.Hash)
	if err := chain.cosiHandleFinalization(&CosiAction{Action: CosiActionFinalization, PeerId: m.Net.NodeIds[0], Snapshot: s, SnapshotHash: s.Hash}); err != nil {
		panic(err)
	}
}

// c22Admit admits an unfinalized transaction the ordinary way (validate, lock, persist).
func c22Admit(name string, build func(m *mcNode, ts uint64) []*common.VersionedTransaction) c22Step {
	return c22Step{name: name, run: func(m *mcNode) {
		ts := m.Net.Epoch + uint64(mcCrashBase+40*time.Second)
		for _, tx := range build(m, ts) {
			_, snap, err := m.Store.ReadTransaction(tx.PayloadHash())
			if err != nil {
				panic(err)
			}
			if snap != "" {
				continue
			}
			if err := tx.Validate(m.Store, ts, false); err != nil {
				// after the conflicting transaction was finalized the admission is refused: fine
				continue
			}
			if err := m.Node.lockAndPersistTransaction(tx, false); err != nil {
				continue
			}
		}
	}}
}

// c22Work mirrors one pass of Chain.AggregateMintWork for a chain.
func c22Work(chain int) c22Step {
	return c22Step{name: fmt.Sprintf("aggregate-work(ch%d)", chain), run: func(m *mcNode) {
		ch := m.chainOf(m.Net.NodeIds[chain])
		round, err := m.Store.ReadWorkOffset(ch.ChainId)
		if err != nil {
			panic(err)
		}
		for i := 0; i < 8; i++ {
			md, ok := ch.checkRoundMature(round)
			if !ok {
				return
			}
			snapshots, err := m.Store.ReadSnapshotWorksForNodeRound(ch.ChainId, round)
			if err != nil {
				panic(err)
			}
			rd := snapshots[0].Timestamp / OneDay
			if err := m.Store.WriteRoundWork(ch.ChainId, round, snapshots, rd == md); err != nil {
				panic(err)
			}
			if round < ch.State.CacheRound.Number {
				round++
			} else {
				return
			}
		}
	}}
}

func c22Scripts() [][]c22Step {
	sec := time.Second
	fundP := c22Deliver(mcDelivery{Name: "ch2:deposit-xin-13439", Chain: 2, TsOffset: 0, Build: mcCrDepositXIN("c22-pf", "13439")})
	b1 := c22Deliver(mcDelivery{Name: "ch3:deposit-b1", Chain: 3, TsOffset: 1 * sec, Build: mcCrDepositBTC("c22-b1", "10")})
	b2 := c22Deliver(mcDelivery{Name: "ch4:deposit-b2", Chain: 4, TsOffset: 2 * sec, Build: mcCrDepositBTC("c22-b2", "10")})
	three := c22Deliver(mcDelivery{Name: "ch3:new-round:3-member", Chain: 3, NewRound: true, TsOffset: 10 * sec, Build: func(m *mcNode, ts uint64) []*common.VersionedTransaction {
		var out []*common.VersionedTransaction
		out = append(out, mcCrDepositBTC("c22-b3", "3")(m, ts)...)
		out = append(out, mcCrDepositBTC("c22-b4", "4")(m, ts)...)
		out = append(out, mcCrTransfer(true, "c22-b1", "10", "4", "6", "c22-t1")(m, ts)...)
		return out
	}})
	pledge := c22Deliver(mcDelivery{Name: "elected:pledge", Chain: -1, Elect: common.TransactionTypeNodePledge, TsOffset: 20 * sec, Build: mcCrPledge("c22-pf", 1)})
	split := c22Deliver(mcDelivery{Name: "ch2:new-round:transfer", Chain: 2, NewRound: true, TsOffset: 21 * sec, Build: mcCrTransfer(true, "c22-b2", "10", "1", "9", "c22-t2")})
	b5 := c22Deliver(mcDelivery{Name: "ch4:new-round:deposit-b5", Chain: 4, NewRound: true, TsOffset: 22 * sec, Build: mcCrDepositBTC("c22-b5", "5")})
	ehu := c22EmptyHeadUpdate(5, 1, 23*sec, "c22-b6")
	// fork path: X spends b3's output and is admitted unfinalized; the finalized
	// snapshot carries Y spending the same output -> takeover prunes X
	admitX := c22Admit("admit-unfinalized-X(b3)", mcCrTransfer(true, "c22-b3", "3", "1", "2", "c22-X"))
	// finalY's new round references chain 5's latest final round (number >= 1): LINK ch3->ch5 >= 1
	finalY := c22DeliverExt(mcDelivery{Name: "ch3:new-round(ext-ch5):Y-takes-over-X", Chain: 3, NewRound: true, TsOffset: 45 * sec, Build: mcCrTransfer(true, "c22-b3", "3", "2", "1", "c22-Y")}, 5)
	// a further round transition of chain 3 (keeps the external reference to chain 5)
	b10 := c22Deliver(mcDelivery{Name: "ch3:new-round:deposit-b10", Chain: 3, NewRound: true, TsOffset: 56 * sec, Build: mcCrDepositBTC("c22-b10", "1")})
	work3 := c22Work(3)
	work2 := c22Work(2)
	// re-inclusion of an already finalized transaction by a finalized snapshot of
	// ANOTHER chain (the kernel accepts it for finalized snapshots; the ledger
	// keeps the finalization record of the first snapshot), each followed later
	// in the script by a round transition of the re-including chain so that the
	// round holding the re-inclusion becomes final while crash cuts continue:
	//  dupA  ch4 head round: 1-member snapshot re-including deposit b1 (first on ch3);
	//        the round is closed by b5 (ch4 new round)
	//  dupB  ch5 FIRST snapshot of a new round re-including transfer t2 (first on
	//        ch2); the round is closed by dupC
	//  dupC  ch5 new round, 2-member batch {deposit b2 (first on ch4), fresh
	//        deposit b7}; the round is closed by b9 (ch5 new round)
	dupA := c22Reinclude(mcDelivery{Name: "ch4:reinclude-b1(of-ch3)", Chain: 4, TsOffset: 3 * sec, Build: mcCrDepositBTC("c22-b1", "10")}, 1)
	dupB := c22Reinclude(mcDelivery{Name: "ch5:new-round:reinclude-t2(of-ch2)", Chain: 5, NewRound: true, TsOffset: 30 * sec, Build: mcCrTransfer(true, "c22-b2", "10", "1", "9", "c22-t2")}, 1)
	dupC := c22ReincludeExt(mcDelivery{Name: "ch5:new-round(ext-ch3):batch-reinclude-b2(of-ch4)+b7", Chain: 5, NewRound: true, TsOffset: 46 * sec, Build: func(m *mcNode, ts uint64) []*common.VersionedTransaction {
		var out []*common.VersionedTransaction
		out = append(out, mcCrDepositBTC("c22-b2", "10")(m, ts)...)
		out = append(out, mcCrDepositBTC("c22-b7", "7")(m, ts)...)
		return out
	}}, 1, 3)
	b9 := c22Deliver(mcDelivery{Name: "ch5:new-round:deposit-b9", Chain: 5, NewRound: true, TsOffset: 55 * sec, Build: mcCrDepositBTC("c22-b9", "9")})
	// a mint (consensus-class singleton) finalized on chain 1 with an ordinary
	// snapshot of chain 6 landing between its WriteSnapshot and its consensus
	// record (chain 6 also carries the pledge at 20 s: 19 s fits the same round in
	// either order)
	mint := c22MintInterleaved("ch1:mint+ch6:deposit-between-snapshot-and-consensus-record", 1, 12*sec,
		mcDelivery{Name: "ch6:deposit-m1", Chain: 6, TsOffset: 19 * sec, Build: mcCrDepositBTC("c22-m1", "1")})
	// External references with round numbers >= 1 in BOTH directions of the node
	// order (chain 3 -> chain 5 by finalY, chain 5 -> chain 3 by dupC), each
	// followed by a further round transition of the same chain towards the same
	// node (b10 for chain 3, b9 for chain 5), so that restarts happen on ledgers
	// with non-zero LINK records towards nodes ordered before AND after the
	// chain's own id and the continuation performs round transitions over them.
	// order constraints: mint (12 s) before pledge (20 s): consensus operations are
	// recorded in timestamp order (an older one after a newer one takes the
	// mainnet-only "hack" branch of WriteConsensusSnapshotWithHack);
	// dupA after b1 and before b5; dupB after split and ehu;
	// dupC after three, b2 and dupB; b9 after dupC; finalY after dupB; b10 after finalY
	return [][]c22Step{
		{fundP, b1, mint, b2, dupA, three, pledge, split, b5, ehu, dupB, admitX, finalY, dupC, work3, b9, b10, work2},
		{b1, dupA, mint, b2, fundP, ehu, three, admitX, split, dupB, pledge, dupC, finalY, b5, b10, b9, work2, work3},
		{b2, b1, three, mint, admitX, fundP, split, pledge, dupA, b5, ehu, dupB, finalY, work3, dupC, b10, b9, work2},
		{mint, ehu, fundP, pledge, b1, three, b2, admitX, split, dupB, work2, dupA, dupC, finalY, b10, b5, b9, work3},
	}
}

// ---- mint ---------------------------------------------------------------------

type c22GenesisFacts struct {
	marker crypto.Hash // consensus record of the genesis ledger
	topo   uint64      // topological order of the last genesis snapshot
	batch  uint64      // last mint batch of the genesis ledger
}

var c22GenesisOnce sync.Once
var c22GenesisVal c22GenesisFacts

func c22Genesis() c22GenesisFacts {
	c22GenesisOnce.Do(func() {
		m, err := newMCNode(mcNet7, 0, "")
		if err != nil {
			panic(err)
		}
		defer m.Close()
		last, err := m.Store.ReadLastConsensusSnapshot()
		if err != nil || last == nil {
			panic(fmt.Sprint("harness: genesis consensus record ", err))
		}
		head, _ := m.Store.LastSnapshot()
		c22GenesisVal = c22GenesisFacts{marker: last.PayloadHash(), topo: head.TopologicalOrder, batch: m.Node.lastMintDistribution().Batch}
	})
	return c22GenesisVal
}

func c22ConsensusClass(tx *common.VersionedTransaction) bool {
	if tx == nil { // a corrupt ledger (body missing): the other invariants report it
		return false
	}
	switch tx.TransactionType() {
	case common.TransactionTypeMint,
		common.TransactionTypeNodePledge,
		common.TransactionTypeNodeCancel,
		common.TransactionTypeNodeAccept,
		common.TransactionTypeNodeRemove,
		common.TransactionTypeCustodianUpdateNodes,
		common.TransactionTypeCustodianSlashNodes:
		return true
	}
	return false
}

// c22MintTx builds THE mint of a script (batch = genesis batch + 1) the way
// mcCrMint does, but idempotently: when the batch is already locked (the step is
// repeated after a restart) the stored body is returned, so the repetition can
// never produce a second, different mint.
func c22MintTx(m *mcNode) *common.VersionedTransaction {
	batch := c22Genesis().batch + 1
	dists, _, err := m.Store.ReadMintDistributions(batch, 1)
	if err != nil {
		panic(err)
	}
	if len(dists) > 0 && dists[0].Batch == batch {
		tx, _, err := m.Store.ReadTransaction(dists[0].Transaction)
		if err != nil {
			panic(err)
		}
		if tx != nil {
			return tx
		}
	}
	a := mcCrAcct()
	tx := common.NewTransactionV5(common.XINAssetId)
	tx.AddUniversalMintInput(batch, common.NewIntegerFromString("89.87671232"))
	tx.AddScriptOutput([]*common.Address{&a}, common.NewThresholdScript(1), common.NewIntegerFromString("89.87671232"), fixc.Seed64("mint-out:c22"))
	last, err := m.Store.ReadLastConsensusSnapshot()
	if err != nil || last == nil {
		panic(fmt.Sprint("no consensus snapshot ", err))
	}
	tx.References = []crypto.Hash{last.Transactions[0]}
	ver := tx.AsVersioned()
	if err := ver.SignRaw(m.Net.Signers[0].PrivateSpendKey); err != nil {
		panic(err)
	}
	return ver
}

// c22MintInterleaved finalizes the mint on `chain` through the post-validation
// tail of cosiHandleFinalization (as mcDeliver's TailOnly mode and C21 do:
// takeover lock + persist, AddSnapshot -> WriteSnapshot, reloadConsensusState ->
// consensus record), with ONE fixed interleaving of another chain's loop: the
// ordinary delivery `between` is handled by the real cosiHandleFinalization
// after the mint's WriteSnapshot and before its consensus record. Every commit
// of both is a crash cut.
func c22MintInterleaved(name string, chain int, tsOff time.Duration, between mcDelivery) c22Step {
	return c22Step{name: name, run: func(m *mcNode) {
		ts := m.Net.Epoch + uint64(mcCrashBase+tsOff)
		chainId := m.Net.NodeIds[chain]
		ch := m.chainOf(chainId)
		tx := c22MintTx(m)
		if err := m.Store.CacheStoreTransaction(tx); err != nil {
			panic(err)
		}
		cache, final := ch.StateCopy()
		s := &common.Snapshot{Version: common.SnapshotVersionCommonEncoding, NodeId: chainId, Timestamp: ts, RoundNumber: cache.Number, References: cache.References.Copy()}
		s.AddTransaction(tx.PayloadHash())
		s.Hash = s.PayloadHash()
		ids, publics := ch.ConsensusKeys(s.RoundNumber, ts)
		idx := mcSignerSet(ids, chainId, m.Node.ConsensusThreshold(ts, true))
		s.Signature = mcDetCosiSign(m.Net, publics, idx, s.Hash)
		signers := make([]crypto.Hash, len(idx))
		for i, k := range idx {
			signers[i] = ids[k]
		}
		if err := m.Node.lockAndPersistTransaction(tx, true); err != nil {
			panic(fmt.Errorf("lockAndPersistTransaction(%s): %w", name, err))
		}
		added := false
		if err := cache.ValidateSnapshot(s); err == nil {
			if err := ch.AddSnapshot(final, cache, s, signers); err != nil {
				panic(err)
			}
			added = true
		} else if !strings.Contains(err.Error(), "duplication") {
			panic(fmt.Errorf("harness: %s: mint snapshot refused: %w", name, err))
		}
		bb := between
		mcDeliver(m, &bb)
		if added {
			if err := m.Node.reloadConsensusState(s, tx); err != nil {
				panic(err)
			}
		}
	}}
}

// c22MintUnrecordedBeforeRestart: the durable ledger holds the mint snapshot,
// it is NOT the last topology entry, and the consensus record before the
// restart (preMarker) was an older snapshot, i.e. the restart had to replay it.
func c22MintUnrecordedBeforeRestart(m *mcNode, preMarker crypto.Hash) bool {
	snaps, txs, err := m.Store.ReadSnapshotWithTransactionsSinceTopology(c22Genesis().topo+1, 500)
	if err != nil {
		return false
	}
	pre, err := m.Store.ReadSnapshot(preMarker)
	if err != nil || pre == nil {
		return false
	}
	for i, sn := range snaps {
		if len(txs[i]) == 1 && txs[i][0] != nil && txs[i][0].TransactionType() == common.TransactionTypeMint {
			return i < len(snaps)-1 && sn.PayloadHash() != preMarker && pre.TopologicalOrder < sn.TopologicalOrder
		}
	}
	return false
}

// c22DeliverNewRoundExt is mcDeliver for a snapshot that opens round
// cache.Number+1 with an external reference to the CURRENT final round of chain
// ext (instead of keeping the head's external reference). When the head round
// is already empty (the round transition was durable before a crash and the
// delivery is repeated) the snapshot goes into the head round with its stored
// references, exactly like mcDeliver.
func c22DeliverNewRoundExt(m *mcNode, d *mcDelivery, ext int) {
	chain := m.chainOf(m.Net.NodeIds[d.Chain])
	cache, _ := chain.StateCopy()
	if len(cache.Snapshots) == 0 {
		mcDeliver(m, d)
		return
	}
	_, ef := m.chainOf(m.Net.NodeIds[ext]).StateCopy()
	if ef.Number < 1 {
		panic(fmt.Sprintf("harness: %s: external chain %d has no final round >= 1", d.Name, ext))
	}
	ts := m.Net.Epoch + uint64(mcCrashBase+d.TsOffset)
	chainId := m.Net.NodeIds[d.Chain]
	txs := d.Build(m, ts)
	for _, tx := range txs {
		if err := m.Store.CacheStoreTransaction(tx); err != nil {
			panic(err)
		}
	}
	s := &common.Snapshot{Version: common.SnapshotVersionCommonEncoding, NodeId: chainId, Timestamp: ts, RoundNumber: cache.Number + 1}
	s.References = &common.RoundLink{Self: cache.asFinal().Hash, External: ef.Hash}
	hs := make([]crypto.Hash, len(txs))
	for i, tx := range txs {
		hs[i] = tx.PayloadHash()
	}
	sort.Slice(hs, func(i, j int) bool { return strings.Compare(string(hs[i][:]), string(hs[j][:])) < 0 })
	for _, h := range hs {
		s.AddTransaction(h)
	}
	s.Hash = s.PayloadHash()
	ids, publics := chain.ConsensusKeys(s.RoundNumber, ts)
	idx := mcSignerSet(ids, chainId, m.Node.ConsensusThreshold(ts, true))
	s.Signature = mcDetCosiSign(m.Net, publics, idx, s.Hash)
	err := chain.cosiHandleFinalization(&CosiAction{Action: CosiActionFinalization, PeerId: m.Net.NodeIds[(d.Chain+8)%7], Snapshot: s, SnapshotHash: s.Hash})
	if err != nil {
		panic(fmt.Errorf("cosiHandleFinalization(%s): %w", d.Name, err))
	}
}

func c22DeliverExt(d mcDelivery, ext int) c22Step {
	return c22Step{name: d.Name, run: func(m *mcNode) { dd := d; c22DeliverNewRoundExt(m, &dd, ext) }}
}

// c22Reinclude delivers a finalized snapshot whose first `dups` transactions (in
// Build order) are ALREADY finalized by a snapshot of another chain. Driver
// precondition (checked, not assumed): each of them has a finalization record
// naming a snapshot of a different chain when the delivery is made.
func c22Reinclude(d mcDelivery, dups int) c22Step { return c22ReincludeExt(d, dups, 0) }

// c22ReincludeExt: ext > 0 opens the new round with an external reference to
// the current final round of chain ext (c22DeliverNewRoundExt).
func c22ReincludeExt(d mcDelivery, dups, ext int) c22Step {
	return c22Step{name: d.Name, run: func(m *mcNode) {
		ts := m.Net.Epoch + uint64(mcCrashBase+d.TsOffset)
		for i, tx := range d.Build(m, ts) {
			if i >= dups {
				break
			}
			_, snap, err := m.Store.ReadTransaction(tx.PayloadHash())
			if err != nil {
				panic(err)
			}
			if snap == "" {
				panic(fmt.Sprintf("harness: %s: transaction %s is not finalized yet", d.Name, tx.PayloadHash()))
			}
			sh, _ := crypto.HashFromString(snap)
			sn, err := m.Store.ReadSnapshot(sh)
			if err != nil || sn == nil {
				panic(fmt.Sprintf("harness: %s: finalizing snapshot %s unreadable (%v)", d.Name, snap, err))
			}
			// after a restart the delivery is repeated: the record may then name this
			// chain's own snapshot only if this chain was the first (never in these scripts)
			if sn.NodeId == m.Net.NodeIds[d.Chain] {
				panic(fmt.Sprintf("harness: %s: transaction %s was first finalized by this very chain", d.Name, tx.PayloadHash()))
			}
		}
		dd := d
		if ext > 0 {
			c22DeliverNewRoundExt(m, &dd, ext)
		} else {
			mcDeliver(m, &dd)
		}
	}}
}

// c22Duplicates counts, on the stored ledger, the (snapshot, transaction) pairs
// in which the transaction's finalization record names ANOTHER snapshot
// (cross-chain re-inclusions), and how many of them sit in a round that is
// already final (below the chain's head round), i.e. inside the scope of the
// startup graph validator.
func c22Duplicates(m *mcNode) (all, inFinalRound int) {
	st := m.Store
	for _, v := range st.VerifDump("SNAPSHOT") {
		vb, _ := hex.DecodeString(v)
		sn, err := common.UnmarshalVersionedSnapshot(vb)
		if err != nil || sn == nil {
			continue
		}
		head, err := st.ReadRound(sn.NodeId)
		if err != nil || head == nil {
			continue
		}
		for _, h := range sn.Transactions {
			_, snap, err := st.ReadTransaction(h)
			if err != nil || snap == "" || snap == sn.PayloadHash().String() {
				continue
			}
			all++
			if sn.RoundNumber < head.Number {
				inFinalRound++
			}
		}
	}
	return all, inFinalRound
}

// c22Invariants evaluates the restart invariants on a freshly set-up node.
func c22Invariants(m *mcNode, report func(key, desc string), ctx string) {
	st := m.Store
	total, invalid, err := st.ValidateGraphEntries(m.Node.networkId, 100000)
	if err != nil || invalid != 0 {
		report("graph-validator", fmt.Sprintf("%s: ValidateGraphEntries total=%d invalid=%d err=%v", ctx, total, invalid, err))
	}
	// every finalized transaction keeps body, outputs and the snapshot it names
	for k, v := range st.VerifDump("FINALIZATION") {
		kb, _ := hex.DecodeString(k)
		var h, sh crypto.Hash
		copy(h[:], kb[len("FINALIZATION"):])
		vb, _ := hex.DecodeString(v)
		copy(sh[:], vb)
		tx, snap, err := st.ReadTransaction(h)
		if err != nil || tx == nil {
			report("finalized-without-body", fmt.Sprintf("%s: finalization record of %s has no stored body (%v)", ctx, h, err))
			continue
		}
		if snap != sh.String() {
			report("finalization-mismatch", fmt.Sprintf("%s: %s", ctx, h))
		}
		for _, u := range tx.UnspentOutputs() {
			got, err := st.ReadUTXOLock(u.Hash, u.Index)
			if err != nil || got == nil {
				report("finalized-without-output", fmt.Sprintf("%s: output %s:%d of finalized transaction is not materialized (%v)", ctx, u.Hash, u.Index, err))
			}
		}
		sn, err := st.ReadSnapshot(sh)
		if err != nil || sn == nil {
			report("finalized-without-snapshot", fmt.Sprintf("%s: transaction %s names snapshot %s which is not stored (%v)", ctx, h, sh, err))
			continue
		}
		found := false
		for _, t := range sn.Transactions {
			found = found || t == h
		}
		if !found {
			report("finalization-mismatch", fmt.Sprintf("%s: snapshot %s does not contain %s", ctx, sh, h))
		}
	}
	// every stored snapshot's transactions are finalized (record, body, outputs)
	for _, v := range st.VerifDump("SNAPSHOT") {
		vb, _ := hex.DecodeString(v)
		sn, err := common.UnmarshalVersionedSnapshot(vb)
		if err != nil {
			continue // SNAPTOPO shares the prefix; only snapshot encodings matter here
		}
		for _, h := range sn.Transactions {
			tx, snap, err := st.ReadTransaction(h)
			if err != nil || tx == nil || snap == "" {
				report("snapshot-without-finalization", fmt.Sprintf("%s: stored snapshot %s lists transaction %s which has no body/finalization record (%v)", ctx, sn.PayloadHash(), h, err))
			}
		}
	}
	// topology positions are unique and TOPOLOGY <-> SNAPTOPO is a bijection
	topo := st.VerifDump("TOPOLOGY")
	rev := st.VerifDump("SNAPTOPO")
	if len(topo) != len(rev) {
		report("topology-bijection", fmt.Sprintf("%s: %d TOPOLOGY entries, %d SNAPTOPO entries", ctx, len(topo), len(rev)))
	}
	snapKeys := st.VerifDump("SNAPSHOT")
	seen := map[string]string{}
	for tk, sk := range topo {
		if _, ok := snapKeys[sk]; !ok {
			report("topology-dangling", fmt.Sprintf("%s: topology entry %s points at a missing snapshot record", ctx, tk))
			continue
		}
		if o, dup := seen[sk]; dup {
			report("topology-duplicate", fmt.Sprintf("%s: snapshot has two positions %s %s", ctx, o, tk))
		}
		seen[sk] = tk
		skb, _ := hex.DecodeString(sk)
		hash := hex.EncodeToString(skb[len(skb)-32:])
		if rev[hex.EncodeToString([]byte("SNAPTOPO"))+hash] != tk {
			report("topology-bijection", fmt.Sprintf("%s: SNAPTOPO of %s is %q, TOPOLOGY says %s", ctx, hash, rev[hex.EncodeToString([]byte("SNAPTOPO"))+hash], tk))
		}
	}
	// consensus bookkeeping: the consensus record equals the last consensus-class
	// singleton snapshot in durable topological order, and the node's mint batch
	// counter equals the stored (finalized) mint batch
	g := c22Genesis()
	want, wantTx := g.marker, crypto.Hash{}
	snaps, txs, err := st.ReadSnapshotWithTransactionsSinceTopology(g.topo+1, 500)
	if err != nil {
		report("topology-unreadable", fmt.Sprintf("%s: %v", ctx, err))
	}
	for i, sn := range snaps {
		if len(txs[i]) != 1 || !c22ConsensusClass(txs[i][0]) {
			continue
		}
		if h := txs[i][0].PayloadHash(); h != wantTx {
			want, wantTx = sn.PayloadHash(), h
		}
	}
	if last, err := st.ReadLastConsensusSnapshot(); err != nil || last == nil || last.PayloadHash() != want {
		got := "none"
		if last != nil {
			got = last.PayloadHash().String()
		}
		report("restart:consensus-record-behind-topology", fmt.Sprintf("%s: the last consensus-class snapshot in durable topological order is %s but the consensus record is %s (%v)", ctx, want, got, err))
	}
	if lm := m.Node.lastMintDistribution().Batch; m.Node.LastMint != lm {
		report("restart:last-mint-stale", fmt.Sprintf("%s: node.LastMint=%d but the stored mint distribution is batch %d", ctx, m.Node.LastMint, lm))
	}
	// every chain's head state loads and agrees with the stored rounds and links
	for _, id := range m.Net.NodeIds {
		ch := m.chainOf(id)
		if ch == nil || ch.State == nil {
			report("chain-state-missing", fmt.Sprintf("%s: chain %s has no state after restart", ctx, id))
			continue
		}
		head, err := st.ReadRound(id)
		if err != nil || head == nil || head.Number != ch.State.CacheRound.Number {
			report("head-round-mismatch", fmt.Sprintf("%s: chain %s head %v vs %d (%v)", ctx, id, head, ch.State.CacheRound.Number, err))
			continue
		}
		fr, err := st.ReadRound(head.References.Self)
		if err != nil || fr == nil || fr.Number+1 != head.Number || fr.NodeId != id {
			report("previous-round-missing", fmt.Sprintf("%s: chain %s round %d references self %s which is not its stored previous final round (%v %v)", ctx, id, head.Number, head.References.Self, fr, err))
		}
		for x, n := range ch.State.RoundLinks {
			l, err := st.ReadLink(id, x)
			if err != nil || l != n {
				report("link-mismatch", fmt.Sprintf("%s: link %s->%s stored %d loaded %d", ctx, id, x, l, n))
			}
		}
		// the in-memory chain state equals what the store holds: the link towards
		// EVERY other node (also those the loader left out of the map), the head
		// round's references and the final round
		for _, x := range c22AllNodeIds(m) {
			if x == id {
				continue
			}
			l, err := st.ReadLink(id, x)
			if err != nil || l != ch.State.RoundLinks[x] {
				report("restart:chain-state-differs-from-store:links", fmt.Sprintf("%s: chain %s link towards %s: store %d, chain state %d (%v)", ctx, id, x, l, ch.State.RoundLinks[x], err))
			}
		}
		if !head.References.Equal(ch.State.CacheRound.References) {
			report("restart:chain-state-differs-from-store:head-references", fmt.Sprintf("%s: chain %s head round %d references: store %v, chain state %v", ctx, id, head.Number, head.References, ch.State.CacheRound.References))
		}
		if f := ch.State.FinalRound; f == nil || f.Hash != head.References.Self || f.Number+1 != head.Number || f.NodeId != id {
			report("restart:chain-state-differs-from-store:final-round", fmt.Sprintf("%s: chain %s final round in chain state %v, store head %d references self %s", ctx, id, f, head.Number, head.References.Self))
		}
	}
}

// c22AllNodeIds: every node the chain loader considers (node list without
// state, in the loader's own order), which includes pledging nodes.
func c22AllNodeIds(m *mcNode) []crypto.Hash {
	var ids []crypto.Hash
	for _, cn := range m.Node.NodesListWithoutState(clock.NowUnixNano(), false) {
		ids = append(ids, cn.IdForNetwork)
	}
	return ids
}

// c22Links returns the stored non-zero links chain->node as two sets split by
// the direction in the loader's node order: forward = towards a node ordered
// AFTER the chain's own id, backward = towards a node ordered before it.
func c22Links(m *mcNode) (fwd, bwd map[[2]crypto.Hash]uint64) {
	fwd, bwd = map[[2]crypto.Hash]uint64{}, map[[2]crypto.Hash]uint64{}
	ids := c22AllNodeIds(m)
	for i, a := range ids {
		for j, b := range ids {
			if i == j {
				continue
			}
			l, err := m.Store.ReadLink(a, b)
			if err != nil || l == 0 {
				continue
			}
			if i < j {
				fwd[[2]crypto.Hash{a, b}] = l
			} else {
				bwd[[2]crypto.Hash{a, b}] = l
			}
		}
	}
	return fwd, bwd
}

// c22TransitionsOver counts the pairs of links (as stored at the restart) whose
// chain has, since then, opened a new round (head number grew) whose external
// reference is a round of that very node.
func c22TransitionsOver(m *mcNode, heads map[crypto.Hash]uint64, links map[[2]crypto.Hash]uint64) int {
	n := 0
	for k := range links {
		head, err := m.Store.ReadRound(k[0])
		if err != nil || head == nil || head.Number <= heads[k[0]] {
			continue
		}
		ext, err := m.Store.ReadRound(head.References.External)
		if err == nil && ext != nil && ext.NodeId == k[1] {
			n++
		}
	}
	return n
}

func c22Heads(m *mcNode) map[crypto.Hash]uint64 {
	heads := map[crypto.Hash]uint64{}
	for _, id := range m.Net.NodeIds {
		if head, err := m.Store.ReadRound(id); err == nil && head != nil {
			heads[id] = head.Number
		}
	}
	return heads
}

// c22RunSteps runs steps[from:]. With a crash controller it stops after the step
// in which the cut commit was reached: from that commit on nothing is durable,
// the process is as good as dead whether or not the code noticed the failure
// (some paths log a failed write and carry on).
func c22RunSteps(m *mcNode, steps []c22Step, from int, ctl *mcCrashCtl) (failedAt int, p any) {
	for i := from; i < len(steps); i++ {
		p := verifmc.Catch(func() { steps[i].run(m) })
		if ctl != nil && ctl.cut > 0 && ctl.count.Load() >= ctl.cut {
			if p == nil {
				p = "crash (write failure swallowed by the node)"
			}
			return i, p
		}
		if p != nil {
			return i, p
		}
	}
	return -1, nil
}

func c22Normalize(d map[string]string) map[string]string {
	// the NODEOPERATION lock and everything else are deterministic; nothing to strip
	return d
}

func TestMC_C22(t *testing.T) {
	c := verifmc.Start(t, "C22", "model_checking")
	defer c.Finish()
	c.SetRule("4 fixed multi-chain scripts of 18 kernel-level steps (finalization deliveries through the real cosiHandleFinalization incl. new rounds, a 3-member batch, a node pledge with consensus marker and node-operation lock, an empty-head reference update, an unfinalized admission displaced by a finalized takeover, round-work aggregation, a mint finalized through the post-validation tail with another chain's ordinary snapshot landing between its WriteSnapshot and its consensus record, and three re-inclusions of an already finalized transaction by a finalized snapshot of another chain - in a head round, as first snapshot of a new round, inside a 2-member batch - each followed by a round transition of the re-including chain so that the round with the duplicate becomes final; two new rounds reference another chain's final round >= 1, one towards a later-ordered and one towards an earlier-ordered node, each followed by a further round transition of the same chain over that link); each script is cut before EVERY durable commit of the snapshot DB; after each cut: reopen + real SetupNode + invariants, invariants incl. in-memory chain state (links towards every node, head references, final round) == store, then the rest of the script is re-delivered and the final database compared byte for byte with the uncut run")
	c.Assume("a Badger commit is the atomic durable unit; durable state after 'crash before commit k' is exactly commits 1..k-1", "fixed scripts instead of a randomized workload (stated deviation); peers re-deliver finalizations after a restart")
	base := mcScratchDir("c22-")
	defer mcRemoveAll(base)
	scripts := c22Scripts()
	if !c.Thorough() {
		scripts = scripts[:2]
	}
	type job struct {
		script int
		cut    int64
	}
	var jobs []job
	finals := make([]map[string]string, len(scripts))
	for si, steps := range scripts {
		dir := mcSubdir(base, 1000+si)
		run := mcOpenRun(dir, 0, false)
		if at, p := c22RunSteps(run.M, steps, 0, nil); p != nil {
			c.Violation("uncut-run-failed:"+steps[at].name, fmt.Sprintf("script %d step %s failed without any crash: %v", si, steps[at].name, p), nil)
			run.Crash()
			continue
		}
		total := run.Ctl.count.Load()
		var names []string
		for _, s := range steps {
			names = append(names, s.name)
		}
		c.Sample(map[string]any{"script": si, "steps": names, "durable_commits": total})
		c22Invariants(run.M, func(k, d string) { c.Violation(k, d, map[string]any{"script": si, "cut": "none"}) }, fmt.Sprintf("script %d uncut", si))
		finals[si] = c22Normalize(run.M.Store.VerifDump(""))
		dupAll, dupFinal := c22Duplicates(run.M)
		c.Require(run.M.Node.lastMintDistribution().Batch == c22Genesis().batch+1, "script %d: the mint was not finalized in the uncut run", si)
		lf, lb := c22Links(run.M)
		c.Require(len(lf) >= 1 && len(lb) >= 1, "script %d: the uncut run ends with %d links >= 1 towards later-ordered nodes and %d towards earlier-ordered nodes; both directions are needed", si, len(lf), len(lb))
		c.Require(dupAll == 3 && dupFinal == 3, "script %d: expected 3 cross-chain re-inclusions, all in final rounds at the end; got %d, %d final", si, dupAll, dupFinal)
		run.Crash()
		mcRemoveAll(dir)
		for k := int64(1); k <= total; k++ {
			jobs = append(jobs, job{si, k})
		}
		c.Set(fmt.Sprintf("script_%d_commits", si), total)
	}
	var mu sync.Mutex
	classes := map[string]int{}
	restartsWithDup, restartsWithFinalDup, maxFinalDup := 0, 0, 0
	restartsFwd, restartsBwd, contFwd, contBwd := 0, 0, 0, 0
	restartsMintRepaired := 0
	c.ParallelN(len(jobs), "crash cuts", func(_, ji int) {
		j := jobs[ji]
		steps := scripts[j.script]
		dir := mcSubdir(base, ji)
		defer mcRemoveAll(dir)
		ctx := fmt.Sprintf("script %d crash before commit %d", j.script, j.cut)
		report := func(k, d string) {
			c.Violation(k, d, map[string]any{"script": j.script, "cut": j.cut})
		}
		run := mcOpenRun(dir, j.cut, false)
		at, p := c22RunSteps(run.M, steps, 0, run.Ctl)
		var preMarker crypto.Hash
		if last, err := run.M.Store.ReadLastConsensusSnapshot(); err == nil && last != nil {
			preMarker = last.PayloadHash()
		}
		run.Crash()
		c.Eval(1)
		c.AddTrans(1)
		c.AddTraces(1)
		if p == nil {
			report("harness:cut-not-reached", ctx)
			return
		}
		c.Distinct(fmt.Sprintf("%d|%d", j.script, j.cut))
		c.Outcome("crash-in:" + steps[at].name)
		var re *mcNode
		var err error
		if pp, site := verifmc.CatchSite(func() { re, err = newMCNode(mcNet7, 0, dir) }); pp != nil {
			report("restart-panicked:"+site, fmt.Sprintf("%s (in step %s): SetupNode panicked: %v", ctx, steps[at].name, pp))
			return
		}
		if err != nil {
			report("restart-failed:"+c22Class(err.Error()), fmt.Sprintf("%s (in step %s): SetupNode failed: %v", ctx, steps[at].name, err))
			return
		}
		c22Invariants(re, report, ctx+" in step "+steps[at].name)
		dupAll, dupFinal := c22Duplicates(re)
		linksFwd, linksBwd := c22Links(re)
		mintAhead := c22MintUnrecordedBeforeRestart(re, preMarker)
		heads := c22Heads(re)
		// continue: the interrupted step and everything after it is re-delivered
		if fa, p2 := c22RunSteps(re, steps, at, nil); p2 != nil {
			report("continue-failed:"+steps[fa].name, fmt.Sprintf("%s: after restart step %s failed: %v", ctx, steps[fa].name, p2))
			re.Close()
			return
		}
		c22Invariants(re, report, ctx+" after continuing")
		final := c22Normalize(re.Store.VerifDump(""))
		if finals[j.script] != nil && !reflect.DeepEqual(final, finals[j.script]) {
			report("final-state-differs:crash-in:"+steps[at].name, fmt.Sprintf("%s: database after restart+continue differs from the uncut run: %s", ctx, c22Diff(finals[j.script], final)))
		}
		tf, tb := c22TransitionsOver(re, heads, linksFwd), c22TransitionsOver(re, heads, linksBwd)
		re.Close()
		mu.Lock()
		classes[steps[at].name]++
		if len(linksFwd) > 0 {
			restartsFwd++
		}
		if len(linksBwd) > 0 {
			restartsBwd++
		}
		if tf > 0 {
			contFwd++
		}
		if mintAhead {
			restartsMintRepaired++
		}
		if tb > 0 {
			contBwd++
		}
		if dupAll > 0 {
			restartsWithDup++
		}
		if dupFinal > 0 {
			restartsWithFinalDup++
		}
		if dupFinal > maxFinalDup {
			maxFinalDup = dupFinal
		}
		mu.Unlock()
		c.AddStates(1)
	})
	c.Set("crash_cuts", len(jobs))
	c.Set("cuts_per_step", classes)
	c.Set("restarts_with_cross_chain_reinclusion", restartsWithDup)
	c.Set("restarts_with_reinclusion_in_final_round", restartsWithFinalDup)
	c.Set("max_reinclusions_in_final_rounds_at_restart", maxFinalDup)
	c.Set("restarts_with_mint_snapshot_durable_but_unrecorded_and_not_last", restartsMintRepaired)
	c.Require(restartsMintRepaired >= 2 || c.Violations() > 0, "only %d restarts on a ledger whose mint snapshot was durable, unrecorded and followed by another chain's snapshot", restartsMintRepaired)
	c.Set("restarts_with_link_ge1_to_later_ordered_node", restartsFwd)
	c.Set("restarts_with_link_ge1_to_earlier_ordered_node", restartsBwd)
	c.Set("continuations_with_round_transition_over_link_to_later_node", contFwd)
	c.Set("continuations_with_round_transition_over_link_to_earlier_node", contBwd)
	c.Require((restartsFwd >= 5 && restartsBwd >= 5) || c.Violations() > 0, "restarts on ledgers with non-zero links: %d towards later-ordered nodes, %d towards earlier-ordered nodes (need >= 5 each)", restartsFwd, restartsBwd)
	c.Require((contFwd >= 2 && contBwd >= 2) || c.Violations() > 0, "continuations after a restart with a round transition over an existing non-zero link: %d towards later-ordered nodes, %d towards earlier-ordered nodes (need >= 2 each)", contFwd, contBwd)
	c.Require(restartsWithFinalDup >= 10 || c.Violations() > 0, "only %d restarts happened on a ledger with a cross-chain re-inclusion in a final round", restartsWithFinalDup)
	c.Require(maxFinalDup == 3 || c.Violations() > 0, "no restart saw all 3 re-inclusions in final rounds (max %d)", maxFinalDup)
	c.Require(len(jobs) >= 40, "only %d crash cuts", len(jobs))
	c.Require(len(classes) >= 11 || c.Violations() > 0, "crash cuts hit only %d kinds of step", len(classes))
}

func c22Class(s string) string {
	if i := strings.Index(s, "("); i > 0 {
		s = s[:i]
	}
	return strings.ReplaceAll(strings.TrimSpace(s), " ", "-")
}

func c22Diff(a, b map[string]string) string {
	var out []string
	prefix := func(k string) string {
		kb, _ := hex.DecodeString(k)
		n := 0
		for n < len(kb) && kb[n] >= 'A' && kb[n] <= 'Z' {
			n++
		}
		return string(kb[:n])
	}
	for k, v := range a {
		if bv, ok := b[k]; !ok {
			out = append(out, "missing "+prefix(k))
		} else if bv != v {
			out = append(out, "changed "+prefix(k))
		}
	}
	for k := range b {
		if _, ok := a[k]; !ok {
			out = append(out, "extra "+prefix(k))
		}
	}
	sort.Strings(out)
	if len(out) > 12 {
		out = out[:12]
	}
	return strings.Join(out, ", ")
}

var _ = fixc.Seed64
