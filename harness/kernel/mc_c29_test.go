//go:build verif

package kernel

import (
	"fmt"
	"runtime/debug"
	"sort"
	"strings"
	"sync"
	"testing"
	"time"

	"github.com/MixinNetwork/mixin/common"
	"github.com/MixinNetwork/mixin/crypto"
	"github.com/MixinNetwork/mixin/kernel/internal/clock"
	"github.com/MixinNetwork/mixin/storage"
	"github.com/MixinNetwork/mixin/verifmc"
	"github.com/MixinNetwork/mixin/verifmc/fixc"
)

// C29 — operator election is deterministic and never selects the node it
// removes. Bounded-exhaustive enumeration (E1) of membership shapes x
// operation classes x days x hours x minutes against the real
// electSnapshotNode / checkRemovePossibility / hour-window predicates.
//
// Membership is installed through the real LoadConsensusNodes over a stub
// storage.Store that only answers ReadAllNodes with synthetic records (in a
// chosen insertion order); nothing is written into allNodesSortedWithState by
// hand.

const (
	c29Hour = uint64(time.Hour)
	c29Day  = 24 * c29Hour
)

// the documented windows (epoch hours, inclusive)
const (
	c29AcceptBegin = 13
	c29AcceptEnd   = 19
	c29MintBegin   = 7
	c29MintEnd     = 9
)

func c29InAccept(h int) bool { return h >= c29AcceptBegin && h <= c29AcceptEnd }
func c29InPledge(h int) bool {
	return !(h >= c29MintBegin && h <= c29MintEnd) && !c29InAccept(h)
}

type c29Store struct {
	storage.Store // nil: every other method panics (caught, reported as harness guard)
	nodes         []*common.Node
}

func (s *c29Store) ReadAllNodes(threshold uint64, withState bool) []*common.Node {
	out := make([]*common.Node, len(s.nodes))
	for i, n := range s.nodes {
		cp := *n
		out[i] = &cp
	}
	return out
}

func (s *c29Store) AddNodeOperation(tx *common.VersionedTransaction, timestamp, threshold uint64, finalized bool) error {
	return nil
}

func (s *c29Store) ListNodeWorks(cids []crypto.Hash, day uint32) (map[crypto.Hash][2]uint64, error) {
	return map[crypto.Hash][2]uint64{}, nil
}

func (s *c29Store) ReadTransaction(hash crypto.Hash) (*common.VersionedTransaction, string, error) {
	return nil, "", nil
}

type c29Rec struct {
	who   int
	ts    uint64
	state string
}

type c29Config struct {
	n     int
	pat   int // 0 equal (genesis), 1 strictly increasing, 2 one tie in the middle
	extra int // 0 none, 1 +removed oldest, 2 +pledging newest, 3 +removed +cancelled +pledging
}

var c29PatNames = []string{"equal", "increasing", "tie-mid"}
var c29ExtraNames = []string{"none", "removed", "pledging", "removed+cancelled+pledging"}

func (cf c29Config) String() string {
	return fmt.Sprintf("n=%d/%s/%s", cf.n, c29PatNames[cf.pat], c29ExtraNames[cf.extra])
}

var (
	c29KeysOnce sync.Once
	c29Signers  []common.Address
	c29Payees   []common.Address
	c29NetId    = fixc.Hash("c29-network")
	c29Epoch    = uint64(fixc.EpochSec) * uint64(time.Second)
)

func c29Keys() {
	c29KeysOnce.Do(func() {
		for i := 0; i < 54; i++ {
			c29Signers = append(c29Signers, fixc.Pub(fixc.NodeAddr(fmt.Sprintf("c29-signer-%d", i))))
			c29Payees = append(c29Payees, fixc.Pub(fixc.NodeAddr(fmt.Sprintf("c29-payee-%d", i))))
		}
	})
}

func c29Id(who int) crypto.Hash { return c29Signers[who].Hash().ForNetwork(c29NetId) }

// records of a configuration; indexes 0..n-1 are the accepted members, 50.. the extras
func (cf c29Config) records() []c29Rec {
	var recs []c29Rec
	for i := 0; i < cf.n; i++ {
		ts := c29Epoch
		switch cf.pat {
		case 1:
			ts = c29Epoch + 1 + uint64(i)
		case 2:
			ts = c29Epoch + 1 + uint64(i)
			if i == cf.n/2 {
				ts--
			}
		}
		recs = append(recs, c29Rec{i, ts, common.NodeStateAccepted})
	}
	if cf.extra == 1 || cf.extra == 3 {
		recs = append(recs, c29Rec{50, c29Epoch, common.NodeStateAccepted}) // at least as old as everyone
		recs = append(recs, c29Rec{50, c29Epoch + 1000, common.NodeStateRemoved})
	}
	if cf.extra == 3 {
		recs = append(recs, c29Rec{51, c29Epoch + 1500, common.NodeStatePledging})
		recs = append(recs, c29Rec{51, c29Epoch + 1600, common.NodeStateCancelled})
	}
	if cf.extra >= 2 {
		recs = append(recs, c29Rec{52, c29Epoch + 2000, common.NodeStatePledging})
	}
	return recs
}

const c29LastRecord = 2000 // every query instant is later than epoch+c29LastRecord

func c29BuildNode(recs []c29Rec, order []int, genesis bool) (*Node, error) {
	st := &c29Store{}
	for _, i := range order {
		r := recs[i]
		st.nodes = append(st.nodes, &common.Node{
			Signer:      c29Signers[r.who],
			Payee:       c29Payees[r.who],
			State:       r.state,
			Transaction: fixc.Hash(fmt.Sprintf("c29-tx-%d-%s", r.who, r.state)),
			Timestamp:   r.ts,
		})
	}
	node := &Node{
		Epoch:           c29Epoch,
		networkId:       c29NetId,
		persistStore:    st,
		genesisNodesMap: map[crypto.Hash]bool{},
		chains:          &chainsMap{m: make(map[crypto.Hash]*Chain)},
	}
	if genesis {
		for _, r := range recs {
			if r.ts == c29Epoch && r.state == common.NodeStateAccepted {
				node.genesisNodesMap[c29Id(r.who)] = true
			}
		}
	}
	var err error
	if p := verifmc.Catch(func() { err = node.LoadConsensusNodes() }); p != nil {
		return nil, fmt.Errorf("LoadConsensusNodes panic: %v", p)
	}
	return node, err
}

func c29Elect(node *Node, op byte, now uint64) (h crypto.Hash, panicked any) {
	defer func() {
		if r := recover(); r != nil {
			panicked = r
		}
	}()
	return node.electSnapshotNode(op, now), nil
}

func c29Candidate(node *Node, nodeId crypto.Hash, now uint64) (cn *CNode, err error, panicked any) {
	defer func() {
		if r := recover(); r != nil {
			panicked = r
		}
	}()
	cn, err = node.checkRemovePossibility(nodeId, now, nil)
	return cn, err, nil
}

func c29ErrClass(err error) string {
	s := err.Error()
	for _, k := range []string{"still pledging", "invalid node remove hour", "invalid period", "all old nodes removed", "never handle", "local time invalid", "invalid timestamp", "invalid node pending state"} {
		if strings.Contains(s, k) {
			return strings.ReplaceAll(k, " ", "-")
		}
	}
	return "other"
}

var c29Ops = []struct {
	op      byte
	name    string
	elected bool
}{
	{common.TransactionTypeMint, "mint", true},
	{common.TransactionTypeNodePledge, "pledge", true},
	{common.TransactionTypeNodeRemove, "remove", true},
	{common.TransactionTypeCustodianUpdateNodes, "custodian-update", true},
	{common.TransactionTypeCustodianSlashNodes, "custodian-slash", true},
	{common.TransactionTypeScript, "script", false},
	{common.TransactionTypeNodeAccept, "accept", false},
}

func TestMC_C29(t *testing.T) {
	c := verifmc.Start(t, "C29", "exploration")
	defer c.Finish()
	// the real sequence builders allocate a full node list per record; fewer GC cycles
	defer debug.SetGCPercent(debug.SetGCPercent(400))
	c29Keys()

	lastDay := verifmc.Pick(c, 365, 3650)
	c.SetRule(fmt.Sprintf("full product: accepted count n in 7..50 x acceptance-timestamp pattern {all equal (genesis), strictly increasing, one tie in the middle} x extra history {none, +oldest node removed, +pledging newest, +removed+cancelled+pledging} x operation {mint, pledge, remove, custodian-update, custodian-slash, script, accept} x day 0..%d x hour 0..23 x minute {0,59}; every election is run twice on one node and once on a second node loaded with the same records in reverse insertion order; a case is distinct by (n, pattern, extra, operation, day); hour predicates at every hour start and +-1 ns for every day of the range; the four validate*/check* entry points at every hour and +-1 ns of one representative day", lastDay))
	c.Assume("membership is installed by the real LoadConsensusNodes over a stub storage.Store that returns synthetic node records in a chosen order (50-node histories through full finalization would dominate the cost; real histories are C09/C11's subject)",
		"oldest/newest accepted node = first/last of the accepted members ordered by (acceptance timestamp, node id text), the order every node derives",
		"query instants are later than every membership record (the one instant now == epoch is skipped: no node is accepted strictly before it)",
		"documented windows: accept/cancel/remove epoch-hours 13..19, mint 7..9, pledge = outside both",
		"history part: every sequence (depth bound 3 quick / 4 thorough) of calls that receive the node's cached membership slices, on one node with per-peer chain states, is replayed from scratch; after every step the elections and removal candidates over a timestamp menu must equal those of a node freshly loaded from the same store and the cached membership lists must be unchanged; the local clock is pinned (mock) to 15:30 of day 300",
		"intra-day part: the oldest node is removed at 14:00 and/or a node is accepted at 15:00 of day d; two nodes are asked the same instants of that day in ascending resp. descending order, a third is reloaded (LoadConsensusNodes) before every instant and serves as the order-free reference")

	// ---- configurations ----
	var cfgs []c29Config
	for n := 7; n <= 50; n++ {
		for pat := 0; pat < 3; pat++ {
			for extra := 0; extra < 4; extra++ {
				cfgs = append(cfgs, c29Config{n, pat, extra})
			}
		}
	}
	c.Set("configurations", int64(len(cfgs)))
	c.Set("days", int64(lastDay+1))

	var mu sync.Mutex
	outcomes := map[string]int64{}
	var skipped int64
	var zero crypto.Hash

	c.ParallelN(len(cfgs), "election sweep", func(_, ci int) {
		cf := cfgs[ci]
		recs := cf.records()
		fwd := make([]int, len(recs))
		rev := make([]int, len(recs))
		for i := range recs {
			fwd[i] = i
			rev[i] = len(recs) - 1 - i
		}
		A, errA := c29BuildNode(recs, fwd, cf.pat == 0)
		B, errB := c29BuildNode(recs, rev, cf.pat == 0)
		if errA != nil || errB != nil {
			c.Require(false, "cannot build nodes for %s: %v %v", cf, errA, errB)
			return
		}
		// a third load order (riffle) must give the same membership view
		{
			var rif []int
			for i, j := 0, len(recs)-1; i <= j; i, j = i+1, j-1 {
				rif = append(rif, j)
				if i != j {
					rif = append(rif, i)
				}
			}
			C, errC := c29BuildNode(recs, rif, cf.pat == 0)
			if errC != nil {
				c.Require(false, "cannot build riffle node for %s: %v", cf, errC)
				return
			}
			probe := c29Epoch + c29Day
			for _, acc := range []bool{true, false} {
				la, lc := A.NodesListWithoutState(probe, acc), C.NodesListWithoutState(probe, acc)
				same := len(la) == len(lc)
				for i := 0; same && i < len(la); i++ {
					same = la[i].IdForNetwork == lc[i].IdForNetwork && la[i].State == lc[i].State && la[i].Timestamp == lc[i].Timestamp
				}
				c.Eval(1)
				if !same {
					c.Violation("elect:nodes-disagree:membership-view", fmt.Sprintf("%s: two nodes loaded with the same records in different order derive different node lists (acceptedOnly=%v)", cf, acc), map[string]any{"config": cf.String()})
				}
			}
		}

		// reference: accepted members ordered by (timestamp, id text)
		type member struct {
			id crypto.Hash
			ts uint64
			s  string
		}
		var acc []member
		for i := 0; i < cf.n; i++ {
			id := c29Id(recs[i].who)
			acc = append(acc, member{id, recs[i].ts, id.String()})
		}
		sort.Slice(acc, func(i, j int) bool {
			if acc[i].ts != acc[j].ts {
				return acc[i].ts < acc[j].ts
			}
			return acc[i].s < acc[j].s
		})
		oldest, newest := acc[0].id, acc[len(acc)-1].id
		pos := map[crypto.Hash]int{}
		for i, m := range acc {
			pos[m.id] = i
		}

		local := map[string]int64{}
		var evals, skip int64
		electedPositions := map[int]bool{}
		replay := func(op string, day, hour, minute int) map[string]any {
			return map[string]any{"n": cf.n, "pattern": c29PatNames[cf.pat], "extra": c29ExtraNames[cf.extra], "op": op, "day": day, "hour": hour, "minute": minute, "epoch": c29Epoch}
		}
		for day := 0; day <= lastDay; day++ {
			for _, o := range c29Ops {
				c.Distinct(fmt.Sprintf("%d|%d|%d|%s|%d", cf.n, cf.pat, cf.extra, o.name, day))
			}
			for hour := 0; hour < 24; hour++ {
				for _, minute := range []int{0, 59} {
					now := c29Epoch + uint64(day)*c29Day + uint64(hour)*c29Hour + uint64(minute)*uint64(time.Minute)
					if now <= c29Epoch+c29LastRecord {
						skip++
						continue
					}
					candi, cerr, cp := c29Candidate(A, zero, now)
					evals++
					candClass := "candidate"
					switch {
					case cp != nil:
						candClass = "candidate-panic"
						c.Violation("remove:candidate-panic", fmt.Sprintf("%s: checkRemovePossibility panics at day %d hour %d: %v", cf, day, hour, cp), replay("remove", day, hour, minute))
					case cerr != nil:
						candClass = "no-candidate:" + c29ErrClass(cerr)
						candi = nil
					}
					local["remove-possibility:"+candClass]++
					if candi != nil && !c29InAccept(hour) {
						c.Violation("window:remove-outside", fmt.Sprintf("%s: checkRemovePossibility yields a candidate at epoch-hour %d (outside 13..19)", cf, hour), replay("remove", day, hour, minute))
					}
					for _, o := range c29Ops {
						a1, p1 := c29Elect(A, o.op, now)
						a2, p2 := c29Elect(A, o.op, now)
						b1, p3 := c29Elect(B, o.op, now)
						evals += 3
						if p1 != nil || p2 != nil || p3 != nil {
							local["elect:panic"]++
							c.Violation("elect:panic", fmt.Sprintf("%s op=%s day=%d hour=%d: election panics (%v/%v/%v) with %d accepted nodes", cf, o.name, day, hour, p1, p2, p3, cf.n), replay(o.name, day, hour, minute))
							continue
						}
						if a1 != a2 {
							c.Violation("elect:repeat-disagree", fmt.Sprintf("%s op=%s day=%d: repeated election on one node gives %s then %s", cf, o.name, day, a1, a2), replay(o.name, day, hour, minute))
						}
						if a1 != b1 {
							c.Violation("elect:nodes-disagree", fmt.Sprintf("%s op=%s day=%d hour=%d: node A elects %s, node B (same records, reverse load order) elects %s", cf, o.name, day, hour, a1, b1), replay(o.name, day, hour, minute))
						}
						if !o.elected {
							if a1 == zero {
								local["not-elected-class"]++
								continue
							}
							local["unexpected-election-for-free-class"]++
						}
						p, isMember := pos[a1]
						if !isMember {
							local["elect:not-accepted"]++
							c.Violation("elect:not-accepted-member", fmt.Sprintf("%s op=%s day=%d: elected %s is not a currently accepted node", cf, o.name, day, a1), replay(o.name, day, hour, minute))
							continue
						}
						electedPositions[p] = true
						if a1 == oldest {
							c.Violation("elect:oldest", fmt.Sprintf("%s op=%s day=%d hour=%d: the oldest accepted node %s is elected", cf, o.name, day, hour, a1), replay(o.name, day, hour, minute))
						}
						if a1 == newest {
							c.Violation("elect:newest", fmt.Sprintf("%s op=%s day=%d hour=%d: the newest accepted node %s is elected", cf, o.name, day, hour, a1), replay(o.name, day, hour, minute))
						}
						local["elected"]++
						if o.op == common.TransactionTypeNodeRemove && candi != nil {
							if a1 == candi.IdForNetwork {
								c.Violation("elect:removal-candidate", fmt.Sprintf("%s day=%d hour=%d: node %s is elected to propose its own removal", cf, day, hour, a1), replay(o.name, day, hour, minute))
							}
							// the elected node itself must be allowed to build the removal
							_, serr, sp := c29Candidate(A, a1, now)
							evals++
							if sp != nil || (serr != nil && strings.Contains(serr.Error(), "never handle")) {
								c.Violation("elect:removal-candidate", fmt.Sprintf("%s day=%d hour=%d: elected node %s is refused as the removed node itself (%v %v)", cf, day, hour, a1, serr, sp), replay(o.name, day, hour, minute))
							}
							local["remove-elected-with-candidate"]++
						}
					}
				}
			}
			if day%128 == 0 && c.Expired("election sweep") {
				break
			}
		}
		// every interior position must have been elected at least once when the
		// day range is at least n (coverage guard input)
		interior := 0
		for p := range electedPositions {
			if p > 0 && p < len(acc)-1 {
				interior++
			}
		}
		c.Eval(evals)
		mu.Lock()
		for k, v := range local {
			outcomes[k] += v
		}
		skipped += skip
		if interior == len(acc)-2 {
			outcomes["config-all-interior-positions-elected"]++
		}
		mu.Unlock()
	})
	for k, v := range outcomes {
		c.Outcome(k) // classes; the per-class case counts are under count:<class>
		c.Set("count:"+k, v)
	}
	c.Set("skipped_instants_not_after_membership", skipped)

	// ---- hour-window predicates: every hour start and +-1 ns, every day ----
	{
		recs := c29Config{9, 0, 0}.records()
		order := []int{0, 1, 2, 3, 4, 5, 6, 7, 8}
		node, err := c29BuildNode(recs, order, true)
		c.Require(err == nil, "predicate node: %v", err)
		if err == nil {
			var in, out int64
			for day := 0; day <= lastDay; day++ {
				for hour := 0; hour < 24; hour++ {
					base := c29Epoch + uint64(day)*c29Day + uint64(hour)*c29Hour
					for _, d := range []int64{-1, 0, 1} {
						ts := uint64(int64(base) + d)
						if ts < c29Epoch {
							continue
						}
						h := hour
						if d < 0 {
							h = (hour + 23) % 24
						}
						c.Eval(2)
						ga, gp := node.checkConsensusAcceptHour(ts), node.checkConsensusPledgeHour(ts)
						wa, wp := c29InAccept(h), c29InPledge(h)
						rp := map[string]any{"day": day, "hour": hour, "delta_ns": d, "epoch": c29Epoch}
						if ga && !wa {
							c.Violation("window:accept-outside", fmt.Sprintf("checkConsensusAcceptHour true at day %d hour-start %d %+d ns (epoch-hour %d, window 13..19)", day, hour, d, h), rp)
						}
						if gp && !wp {
							c.Violation("window:pledge-outside", fmt.Sprintf("checkConsensusPledgeHour true at day %d hour-start %d %+d ns (epoch-hour %d, allowed outside 7..9 and 13..19)", day, hour, d, h), rp)
						}
						if !ga && wa {
							c.Stricter("accept window refused inside 13..19")
						}
						if !gp && wp {
							c.Stricter("pledge window refused inside its hours")
						}
						if ga || gp {
							in++
						} else {
							out++
						}
						if day < 2 {
							c.Distinct(fmt.Sprintf("pred|%d|%d|%d", day, hour, d))
						}
					}
				}
			}
			c.Outcome("predicate:some-window-open")
			c.Outcome("predicate:all-windows-closed")
			c.Set("count:predicate-open", in)
			c.Set("count:predicate-closed", out)
			c.Require(in > 0 && out > 0, "hour predicates never vary")
		}
	}

	// ---- entry points reject outside their windows (representative day) ----
	c29EntryPoints(c)

	// ---- membership changes inside a day, query order ----
	c29IntraDay(c)

	// ---- histories of read-only-looking calls on one node vs a fresh node ----
	c29Histories(c)

	c.Sample(map[string]any{"n": 7, "pattern": "equal", "extra": "none", "op": "remove", "day": 0, "hour": 13, "minute": 0, "expect": "elected is an interior accepted node; no candidate (only 7 accepted)"})
	c.Sample(map[string]any{"n": 50, "pattern": "tie-mid", "extra": "removed", "op": "remove", "day": lastDay, "hour": 19, "minute": 59, "expect": "candidate = oldest accepted; elected != candidate on both nodes"})
	c.Sample(map[string]any{"n": 8, "pattern": "increasing", "extra": "pledging", "op": "mint", "day": 6, "hour": 7, "minute": 0, "expect": "pledging newest node is never elected nor shields the newest accepted node"})
	c.Sample(map[string]any{"predicate": "checkConsensusAcceptHour", "day": 1, "hour_start": 20, "delta_ns": -1, "expect": "true (19:59:59.999999999)"})

	if c.Violations() == 0 && !c.Expired("final guards") {
		c.Require(outcomes["elected"] > 0 && outcomes["not-elected-class"] > 0, "elections never produced both elected and free classes: %v", outcomes)
		c.Require(outcomes["remove-elected-with-candidate"] > 0, "no removal election was ever compared with a removal candidate")
		c.Require(outcomes["remove-possibility:no-candidate:still-pledging"] > 0 && outcomes["remove-possibility:no-candidate:invalid-node-remove-hour"] > 0 &&
			outcomes["remove-possibility:no-candidate:all-old-nodes-removed"] > 0 && outcomes["remove-possibility:candidate"] > 0,
			"removal possibility classes not all reached: %v", outcomes)
		if lastDay >= 50 && !c.Expired("final") {
			c.Require(outcomes["config-all-interior-positions-elected"] == int64(len(cfgs)), "only %d of %d configurations elected every interior position", outcomes["config-all-interior-positions-elected"], len(cfgs))
		}
	}
}

// c29EntryPoints drives validateNodePledgeSnapshot, validateNodeCancelSnapshot,
// validateNodeRemoveSnapshot and checkNodeAcceptPossibility (the gate of
// validateNodeAcceptSnapshot) at every hour start and +-1 ns of day 2, on a
// 10-node membership (with a pledging node for accept/cancel), under three
// local clocks. Raised when an operation gets past its hour check outside its
// window, is refused for its hour inside, or when the verdict for one
// snapshot timestamp depends on the local clock.
func c29EntryPoints(c *verifmc.Check) {
	plain := c29Config{10, 0, 0}.records()
	var order []int
	for i := range plain {
		order = append(order, i)
	}
	nodeP, err := c29BuildNode(plain, order, true)
	c.Require(err == nil, "entry node: %v", err)
	// pledging node pledged during day 1 hour 1, so accept/cancel elapse is in [12h, 7d] on day 2
	pl := append([]c29Rec{}, plain...)
	pl = append(pl, c29Rec{52, c29Epoch + c29Day + c29Hour, common.NodeStatePledging})
	order = append(order, len(pl)-1)
	nodeQ, err2 := c29BuildNode(pl, order, true)
	c.Require(err2 == nil, "entry node with pledging: %v", err2)
	if err != nil || err2 != nil {
		return
	}
	pledgingId := c29Id(52)
	var pledgingInfo *CNode
	for _, cn := range nodeQ.NodesListWithoutState(c29Epoch+3*c29Day, false) {
		if cn.IdForNetwork == pledgingId {
			pledgingInfo = cn
		}
	}
	c.Require(pledgingInfo != nil && pledgingInfo.State == common.NodeStatePledging, "pledging node not visible")
	if pledgingInfo == nil {
		return
	}
	chainQ := &Chain{node: nodeQ, ChainId: pledgingId, ConsensusInfo: pledgingInfo}

	pledgeTx := common.NewTransactionV5(common.XINAssetId)
	pledgeTx.AddInput(fixc.Hash("c29-pledge-input"), 0)
	pledgeTx.AddOutputWithType(common.OutputTypeNodePledge, nil, common.Script{}, common.KernelNodePledgeAmount, fixc.Seed64("c29-pledge"))
	pledgeTx.Extra = append(c29Signers[53].PublicSpendKey[:], c29Payees[53].PublicSpendKey[:]...)
	pledgeVer := pledgeTx.AsVersioned()

	cancelTx := common.NewTransactionV5(common.XINAssetId)
	cancelTx.AddInput(fixc.Hash("c29-cancel-input"), 0)
	cancelTx.AddOutputWithType(common.OutputTypeNodeCancel, nil, common.Script{}, common.KernelNodePledgeAmount, fixc.Seed64("c29-cancel"))
	cancelTx.Extra = append(c29Signers[52].PublicSpendKey[:], c29Payees[52].PublicSpendKey[:]...)
	cancelVer := cancelTx.AsVersioned()

	removeTx := common.NewTransactionV5(common.XINAssetId)
	removeTx.AddInput(fixc.Hash("c29-remove-input"), 0)
	removeTx.AddOutputWithType(common.OutputTypeNodeRemove, nil, common.Script{}, common.KernelNodePledgeAmount, fixc.Seed64("c29-remove"))
	removeTx.Extra = append(c29Signers[0].PublicSpendKey[:], c29Payees[0].PublicSpendKey[:]...)
	removeVer := removeTx.AsVersioned()

	day := 2
	counts := map[string]int64{}
	// the local clock is varied independently of the snapshot timestamp: the
	// real one (years after day 2), 15:30 of day 3 (inside the 13..19 window)
	// and 22:30 of day 3 (outside every window but pledge)
	clocks := []struct {
		name string
		at   uint64
	}{{"real", 0}, {"day3-15:30", c29Epoch + 3*c29Day + 15*c29Hour + 30*uint64(time.Minute)}, {"day3-22:30", c29Epoch + 3*c29Day + 22*c29Hour + 30*uint64(time.Minute)}}
	defer clock.Reset()
	verdicts := map[string]string{} // entry|hour|delta -> verdict under the first clock
	for ci, ck := range clocks {
		clock.Reset()
		if ck.at != 0 {
			clock.MockDiff(time.Duration(int64(ck.at) - time.Now().UnixNano()))
		}
		for hour := 0; hour < 24; hour++ {
			base := c29Epoch + uint64(day)*c29Day + uint64(hour)*c29Hour
			for _, d := range []int64{-1, 0, 1} {
				ts := uint64(int64(base) + d)
				h := hour
				if d < 0 {
					h = (hour + 23) % 24
				}
				type ep struct {
					name   string
					inside bool
					run    func() error
				}
				eps := []ep{
					{"pledge", c29InPledge(h), func() error {
						s := &common.Snapshot{Version: common.SnapshotVersionCommonEncoding, NodeId: nodeP.electSnapshotNode(common.TransactionTypeNodePledge, ts), Timestamp: ts}
						return nodeP.validateNodePledgeSnapshot(s, pledgeVer, false)
					}},
					{"cancel", c29InAccept(h), func() error {
						s := &common.Snapshot{Version: common.SnapshotVersionCommonEncoding, NodeId: pledgingId, Timestamp: ts}
						return nodeQ.validateNodeCancelSnapshot(s, cancelVer, false)
					}},
					{"remove", c29InAccept(h), func() error {
						s := &common.Snapshot{Version: common.SnapshotVersionCommonEncoding, NodeId: nodeP.electSnapshotNode(common.TransactionTypeNodeRemove, ts), Timestamp: ts}
						return nodeP.validateNodeRemoveSnapshot(s, removeVer, false)
					}},
					{"accept", c29InAccept(h), func() error {
						return chainQ.checkNodeAcceptPossibility(ts, true)
					}},
				}
				for _, e := range eps {
					var err error
					p := verifmc.Catch(func() { err = e.run() })
					c.Eval(1)
					c.Distinct(fmt.Sprintf("entry|%s|%d|%d|%s", e.name, hour, d, ck.name))
					rp := map[string]any{"entry": e.name, "day": day, "hour": hour, "delta_ns": d, "local_clock": ck.name}
					where := fmt.Sprintf("epoch-hour %d (day %d, hour start %d %+d ns, local clock %s)", h, day, hour, d, ck.name)
					if p != nil {
						c.Require(false, "entry point %s panicked at hour %d %+d: %v", e.name, hour, d, p)
						continue
					}
					hourErr := err != nil && strings.Contains(err.Error(), " hour ")
					verdict := ""
					switch {
					case !e.inside && err == nil:
						verdict = "accepted-outside"
						c.Violation("window:"+e.name+"-outside", fmt.Sprintf("%s operation passes its snapshot validation at %s, outside its window", e.name, where), rp)
					case !e.inside && !hourErr:
						// on this fixture the hour is the only condition that fails outside the window
						verdict = "hour-check-passed-outside"
						c.Violation("window:"+e.name+"-outside", fmt.Sprintf("%s operation gets past its hour check at %s, outside its window (later error: %v)", e.name, where, err), rp)
					case !e.inside:
						verdict = "rejected-outside"
					case hourErr:
						verdict = "hour-rejected-inside"
						c.Violation("window:"+e.name+"-rejected-inside", fmt.Sprintf("%s operation is refused for its hour at %s, inside its window: %v", e.name, where, err), rp)
					case err == nil:
						verdict = "passed-inside"
					default:
						verdict = "inside-hour-ok-later-check-failed"
					}
					counts[e.name+":"+verdict]++
					vk := fmt.Sprintf("%s|%d|%d", e.name, hour, d)
					if ci == 0 {
						verdicts[vk] = verdict
					} else if verdicts[vk] != verdict {
						counts[e.name+":depends-on-local-clock"]++
						c.Violation("window:depends-on-local-clock:"+e.name, fmt.Sprintf("%s operation at %s: verdict %q, but %q for the same snapshot timestamp under local clock %s", e.name, where, verdict, verdicts[vk], clocks[0].name), rp)
					}
				}
			}
		}
	}
	clock.Reset()
	for k, v := range counts {
		c.Outcome("entry:" + k)
		c.Set("count:entry:"+k, v)
	}
	if c.Violations() == 0 {
		for _, name := range []string{"pledge", "cancel", "remove", "accept"} {
			c.Require(counts[name+":rejected-outside"] > 0, "entry %s never rejected for its hour outside the window: %v", name, counts)
		}
		c.Require(counts["pledge:passed-inside"] > 0 && counts["cancel:passed-inside"] > 0 && counts["accept:passed-inside"] > 0, "entry points never passed inside their windows: %v", counts)
		c.Require(counts["remove:inside-hour-ok-later-check-failed"] > 0, "remove entry never got past its hour check: %v", counts)
	}
}

// c29IntraDay: memberships that change inside an epoch day. kind 0: the oldest
// accepted node is removed at 14:00 of day d; kind 1: a node is accepted at
// 15:00 of day d; kind 2: both. Node A answers the instants of day d in
// ascending order, node B in descending order, node R is reloaded before each
// instant. Per instant all three must agree and the elected node must be an
// accepted node that is neither the oldest nor the newest nor the removal
// candidate of that instant.
func c29IntraDay(c *verifmc.Check) {
	days := verifmc.Pick(c, []int{1, 2, 200}, []int{1, 2, 3, 4, 5, 6, 7, 8, 9, 10, 11, 12, 13, 14, 15, 16, 17, 18, 19, 20, 21, 22, 23, 24, 30, 47, 48, 49, 200, 364, 365, 3650})
	kinds := []string{"remove@14:00", "accept@15:00", "remove@14:00+accept@15:00"}
	type job struct{ n, pat, kind, day int }
	var jobs []job
	for n := 7; n <= 50; n++ {
		for pat := 0; pat < 2; pat++ {
			if pat == 0 && !c.Thorough() && n > 12 && n < 50 {
				continue // quick: the all-equal (genesis) pattern only for the small sizes and the cap
			}
			for kind := 0; kind < 3; kind++ {
				if kind != 1 && n < 8 {
					continue // the removal must leave the minimum of 7 accepted nodes
				}
				if kind == 1 && n == 50 {
					continue // at the cap no node can be accepted
				}
				for _, d := range days {
					jobs = append(jobs, job{n, pat, kind, d})
				}
			}
		}
	}
	c.Set("intraday_configurations", int64(len(jobs)))
	var mu sync.Mutex
	counts := map[string]int64{}
	var zero crypto.Hash
	c.ParallelN(len(jobs), "intra-day sweep", func(_, ji int) {
		j := jobs[ji]
		d0 := c29Epoch + uint64(j.day)*c29Day
		recs := c29Config{j.n, j.pat, 0}.records()
		// the oldest accepted node by (timestamp, id text)
		oldest := 0
		for i := 1; i < j.n; i++ {
			if recs[i].ts < recs[oldest].ts || (recs[i].ts == recs[oldest].ts && c29Id(i).String() < c29Id(oldest).String()) {
				oldest = i
			}
		}
		if j.kind != 1 {
			recs = append(recs, c29Rec{oldest, d0 + 14*c29Hour, common.NodeStateRemoved})
		}
		if j.kind != 0 {
			recs = append(recs, c29Rec{53, d0 + 15*c29Hour, common.NodeStateAccepted})
		}
		order := make([]int, len(recs))
		for i := range order {
			order[i] = i
		}
		A, errA := c29BuildNode(recs, order, j.pat == 0)
		B, errB := c29BuildNode(recs, order, j.pat == 0)
		R, errR := c29BuildNode(recs, order, j.pat == 0)
		if errA != nil || errB != nil || errR != nil {
			c.Require(false, "intra-day nodes: %v %v %v", errA, errB, errR)
			return
		}
		instants := []uint64{
			d0 + 3*c29Hour, d0 + 13*c29Hour + 30*uint64(time.Minute), d0 + 14*c29Hour, d0 + 14*c29Hour + 1,
			d0 + 15*c29Hour, d0 + 15*c29Hour + 1, d0 + 21*c29Hour,
		}
		type ans struct {
			h crypto.Hash
			p any
		}
		elected := func(node *Node, asc bool) map[[2]int]ans {
			out := map[[2]int]ans{}
			for k := range instants {
				ti := k
				if !asc {
					ti = len(instants) - 1 - k
				}
				for oi, o := range c29Ops {
					if !o.elected {
						continue
					}
					h, p := c29Elect(node, o.op, instants[ti])
					out[[2]int{ti, oi}] = ans{h, p}
				}
			}
			return out
		}
		ansA, ansB := elected(A, true), elected(B, false)
		local := map[string]int64{}
		var evals int64
		for ti, now := range instants {
			if p := verifmc.Catch(func() { _ = R.LoadConsensusNodes() }); p != nil {
				c.Require(false, "reference reload panicked: %v", p)
				return
			}
			// reference membership at this instant
			type member struct {
				id crypto.Hash
				ts uint64
				s  string
			}
			latest := map[int]c29Rec{}
			for _, r := range recs { // recs are in non-decreasing timestamp order per node
				if r.ts < now {
					latest[r.who] = r
				}
			}
			var acc []member
			for who, r := range latest {
				if r.state == common.NodeStateAccepted {
					id := c29Id(who)
					acc = append(acc, member{id, r.ts, id.String()})
				}
			}
			sort.Slice(acc, func(a, b int) bool {
				if acc[a].ts != acc[b].ts {
					return acc[a].ts < acc[b].ts
				}
				return acc[a].s < acc[b].s
			})
			pos := map[crypto.Hash]int{}
			for i, m := range acc {
				pos[m.id] = i
			}
			candi, cerr, cp := c29Candidate(R, zero, now)
			if cp != nil || cerr != nil {
				candi = nil
				if cerr != nil {
					local["intraday:no-candidate:"+c29ErrClass(cerr)]++
				}
			} else {
				local["intraday:candidate"]++
			}
			for oi, o := range c29Ops {
				if !o.elected {
					continue
				}
				r, rp := c29Elect(R, o.op, now)
				a, b := ansA[[2]int{ti, oi}], ansB[[2]int{ti, oi}]
				evals += 3
				c.Distinct(fmt.Sprintf("intraday|%d|%d|%d|%d|%d|%s", j.n, j.pat, j.kind, j.day, ti, o.name))
				replay := map[string]any{"n": j.n, "pattern": c29PatNames[j.pat], "change": kinds[j.kind], "day": j.day, "instant_index": ti, "instant": now, "epoch": c29Epoch, "op": o.name}
				where := fmt.Sprintf("n=%d/%s/%s day=%d instant#%d op=%s", j.n, c29PatNames[j.pat], kinds[j.kind], j.day, ti, o.name)
				if rp != nil || a.p != nil || b.p != nil {
					c.Violation("elect:panic", fmt.Sprintf("%s: election panics (%v/%v/%v) with %d accepted nodes", where, a.p, b.p, rp, len(acc)), replay)
					continue
				}
				if a.h != r || b.h != r {
					local["intraday:order-dependent"]++
					c.Violation("elect:nodes-disagree:query-order", fmt.Sprintf("%s: a node asked the day's instants in ascending order elects %s, one asked in descending order %s, a freshly loaded one %s", where, a.h, b.h, r), replay)
				}
				for _, h := range []crypto.Hash{a.h, b.h, r} {
					p, ok := pos[h]
					switch {
					case !ok:
						c.Violation("elect:not-accepted-member", fmt.Sprintf("%s: elected %s is not an accepted node at that instant", where, h), replay)
					case p == 0:
						c.Violation("elect:oldest", fmt.Sprintf("%s: the oldest accepted node of that instant %s is elected", where, h), replay)
					case p == len(acc)-1:
						c.Violation("elect:newest", fmt.Sprintf("%s: the newest accepted node of that instant %s is elected", where, h), replay)
					}
					if o.op == common.TransactionTypeNodeRemove && candi != nil && h == candi.IdForNetwork {
						c.Violation("elect:removal-candidate", fmt.Sprintf("%s: node %s is elected to propose its own removal", where, h), replay)
					}
				}
				local["intraday:elected"]++
			}
		}
		// the membership really changes inside the day
		before, after := len(R.NodesListWithoutState(instants[0], true)), len(R.NodesListWithoutState(instants[len(instants)-1], true))
		if (j.kind == 2 && before == after) || (j.kind != 2 && before != after) {
			local["intraday:membership-changed"]++
		}
		c.Eval(evals)
		mu.Lock()
		for k, v := range local {
			counts[k] += v
		}
		mu.Unlock()
	})
	for k, v := range counts {
		c.Outcome(k)
		c.Set("count:"+k, v)
	}
	if c.Violations() > 0 || c.Expired("intra-day guards") {
		return
	}
	c.Require(counts["intraday:membership-changed"] == int64(len(jobs)), "membership did not change inside the day in every intra-day configuration (%d of %d)", counts["intraday:membership-changed"], len(jobs))
	c.Require(counts["intraday:elected"] > 0 && counts["intraday:candidate"] > 0 && counts["intraday:no-candidate:invalid-period"] > 0, "intra-day outcome classes not reached: %v", counts)
}

// c29Fingerprint renders every cached membership list of a node.
func c29Fingerprint(node *Node) string {
	var b strings.Builder
	put := func(cn *CNode) {
		fmt.Fprintf(&b, "%s/%s/%d/%s/%s;", cn.IdForNetwork, cn.State, cn.Timestamp, cn.Transaction, cn.Signer.PublicSpendKey)
	}
	for _, cn := range node.allNodesSortedWithState {
		put(cn)
	}
	for _, seqs := range [][]*NodeStateSequence{node.nodeStateSequences, node.acceptedNodeStateSequences} {
		b.WriteString("|")
		for _, sq := range seqs {
			fmt.Fprintf(&b, "@%d:", sq.Timestamp)
			for _, cn := range sq.NodesWithoutState {
				put(cn)
			}
		}
	}
	h := crypto.Blake3Hash([]byte(b.String()))
	return h.String()
}

// c29Histories: one node with a chain state per accepted peer (as the running
// kernel has). Steps are the calls that are handed the node's cached
// membership slices; none of them may change what the node elects.
func c29Histories(c *verifmc.Check) {
	depth := verifmc.Pick(c, 3, 4)
	pinned := c29Epoch + 300*c29Day + 15*c29Hour + 30*uint64(time.Minute)
	clock.Reset()
	clock.MockDiff(time.Duration(int64(pinned) - time.Now().UnixNano()))
	defer clock.Reset()

	stepNames := []string{
		"elect-all", "working-list+filter-leading(no-peer-lagging)", "working-list+filter-leading(some-peers-lagging)", "working-list+filter-leading(all-peers-lagging)",
		"QueueState", "ListMintWorks", "determineBestRound", "checkRemovePossibility+PledgingNode+ReadAllNodesWithoutState", "ConsensusKeys+ConsensusThreshold",
		"validateNodePledgeSnapshot", "LoadConsensusNodes",
	}
	nStep := len(stepNames)
	menu := []uint64{c29Epoch + 300*c29Day + 3*c29Hour, pinned, c29Epoch + 301*c29Day + 15*c29Hour, c29Epoch + c29Day + 13*c29Hour, c29Epoch + 100*c29Day}
	type job struct{ n, pat, first int }
	var jobs []job
	for _, n := range []int{7, 9, 12} {
		for pat := 0; pat < 2; pat++ {
			for f := 0; f < nStep; f++ {
				jobs = append(jobs, job{n, pat, f})
			}
		}
	}
	pledgeTx := common.NewTransactionV5(common.XINAssetId)
	pledgeTx.AddInput(fixc.Hash("c29-history-pledge-input"), 0)
	pledgeTx.AddOutputWithType(common.OutputTypeNodePledge, nil, common.Script{}, common.KernelNodePledgeAmount, fixc.Seed64("c29-history-pledge"))
	pledgeTx.Extra = append(c29Signers[53].PublicSpendKey[:], c29Payees[53].PublicSpendKey[:]...)
	pledgeVer := pledgeTx.AsVersioned()

	// what a node answers: every elected operation and the removal candidate at every menu instant
	answers := func(node *Node) (string, any) {
		var b strings.Builder
		var pv any
		for _, ts := range menu {
			for _, o := range c29Ops {
				if !o.elected {
					continue
				}
				h, p := c29Elect(node, o.op, ts)
				if p != nil {
					pv = p
				}
				fmt.Fprintf(&b, "%s@%d=%s;", o.name, ts, h)
			}
			cn, err, p := c29Candidate(node, crypto.Hash{}, ts)
			if p != nil {
				pv = p
			}
			if err == nil && cn != nil {
				fmt.Fprintf(&b, "candidate@%d=%s;", ts, cn.IdForNetwork)
			}
		}
		return b.String(), pv
	}
	build := func(n, pat int) (*Node, error) {
		recs := c29Config{n, pat, 0}.records()
		order := make([]int, len(recs))
		for i := range order {
			order[i] = i
		}
		node, err := c29BuildNode(recs, order, pat == 0)
		if err != nil {
			return nil, err
		}
		// a chain with a state for every accepted peer, all leading
		for i := 0; i < n; i++ {
			id := c29Id(i)
			node.chains.m[id] = &Chain{node: node, ChainId: id, State: &ChainState{
				CacheRound: &CacheRound{NodeId: id, Number: 1, Timestamp: pinned},
				FinalRound: &FinalRound{NodeId: id, Number: 0, Start: pinned + c29Hour},
			}}
		}
		node.IdForNetwork = c29Id(n - 1)
		node.chain = node.chains.m[node.IdForNetwork]
		return node, nil
	}

	var mu sync.Mutex
	counts := map[string]int64{}
	var sequences int64
	c.ParallelN(len(jobs), "election histories", func(_, ji int) {
		j := jobs[ji]
		fresh, err := build(j.n, j.pat)
		if err != nil {
			c.Require(false, "history reference node: %v", err)
			return
		}
		want, wp := answers(fresh)
		wantPrint := c29Fingerprint(fresh)
		if wp != nil {
			c.Require(false, "history reference node panicked: %v", wp)
			return
		}
		local := map[string]int64{}
		var evals, seqs int64
		run := func(seq []int) {
			seqs++
			node, err := build(j.n, j.pat)
			if err != nil {
				c.Require(false, "history node: %v", err)
				return
			}
			name := ""
			for i, st := range seq {
				if i > 0 {
					name += " ; "
				}
				name += stepNames[st]
			}
			for _, st := range seq {
				lag := func(which func(i int) bool) {
					for i := 0; i < j.n; i++ {
						start := pinned + c29Hour
						if which(i) {
							start = 1
						}
						node.chains.m[c29Id(i)].State.FinalRound.Start = start
					}
				}
				p := verifmc.Catch(func() {
					switch st {
					case 0:
						answers(node)
					case 1, 2, 3:
						switch st {
						case 1:
							lag(func(int) bool { return false })
						case 2:
							// lagging peers are chosen by position in the working list: the first and every third
							l := node.NodesListWithoutState(clock.NowUnixNano(), true)
							lagging := map[crypto.Hash]bool{}
							for i, cn := range l {
								if i%3 == 0 && i != len(l)-1 {
									lagging[cn.IdForNetwork] = true
								}
							}
							lag(func(i int) bool { return lagging[c29Id(i)] })
						case 3:
							lag(func(int) bool { return true })
						}
						all := node.ListWorkingAcceptedNodes(clock.NowUnixNano())
						node.filterLeadingNodes(all)
					case 4:
						node.QueueState()
					case 5:
						_, _ = node.ListMintWorks(300)
					case 6:
						node.chain.determineBestRound(pinned)
					case 7:
						_, _ = node.checkRemovePossibility(node.IdForNetwork, pinned, nil)
						node.PledgingNode(pinned)
						node.ReadAllNodesWithoutState()
						node.GetRemovedOrCancelledNode(node.IdForNetwork, pinned)
					case 8:
						node.chain.ConsensusKeys(1, pinned)
						node.ConsensusThreshold(pinned, true)
					case 9:
						ts := c29Epoch + 300*c29Day + 3*c29Hour
						s := &common.Snapshot{Version: common.SnapshotVersionCommonEncoding, NodeId: node.electSnapshotNode(common.TransactionTypeNodePledge, ts), Timestamp: ts}
						_ = node.validateNodePledgeSnapshot(s, pledgeVer, false)
					case 10:
						_ = node.LoadConsensusNodes()
					}
				})
				if p != nil {
					c.Require(false, "history n=%d/%s [%s]: step %s panicked: %v", j.n, c29PatNames[j.pat], name, stepNames[st], p)
					return
				}
				got, gp := answers(node)
				evals += int64(len(menu) * 6)
				replay := map[string]any{"n": j.n, "pattern": c29PatNames[j.pat], "sequence": name, "steps": append([]int{}, seq...), "failing_step": stepNames[st], "local_clock": pinned, "epoch": c29Epoch}
				if print := c29Fingerprint(node); print != wantPrint {
					local["membership-mutated"]++
					c.Violation("membership:cached-list-mutated:"+stepNames[st], fmt.Sprintf("n=%d/%s after [%s]: step %s changed the node's cached membership lists (a node freshly loaded from the same store has different lists)", j.n, c29PatNames[j.pat], name, stepNames[st]), replay)
				}
				if gp != nil || got != want {
					local["history-dependent"]++
					diff := ""
					ga, wa := strings.Split(got, ";"), strings.Split(want, ";")
					for i := range wa {
						if i < len(ga) && ga[i] != wa[i] {
							diff = fmt.Sprintf("this node: %s, freshly loaded node: %s", ga[i], wa[i])
							break
						}
					}
					c.Violation("elect:history-dependent:"+stepNames[st], fmt.Sprintf("n=%d/%s after [%s]: elections differ from a node freshly loaded from the same store (%s; panic %v)", j.n, c29PatNames[j.pat], name, diff, gp), replay)
					return
				}
				local["history-step-compared"]++
			}
			c.Distinct(fmt.Sprintf("history|%d|%d|%v", j.n, j.pat, seq))
		}
		tail := make([]int, 0, depth)
		var rec func()
		rec = func() {
			run(append([]int{j.first}, tail...))
			if len(tail)+1 >= depth || c.Expired("election histories") {
				return
			}
			for st := 0; st < nStep; st++ {
				tail = append(tail, st)
				rec()
				tail = tail[:len(tail)-1]
			}
		}
		rec()
		c.Eval(evals)
		mu.Lock()
		for k, v := range local {
			counts[k] += v
		}
		sequences += seqs
		mu.Unlock()
	})
	for k, v := range counts {
		c.Outcome("history:" + k)
		c.Set("count:history:"+k, v)
	}
	c.Set("history_sequences", sequences)
	c.Set("history_depth", int64(depth))
	if c.Violations() == 0 && !c.Expired("history guards") {
		c.Require(counts["history-step-compared"] > 0, "no history step was compared")
	}
}
