//go:build verif

package kernel

import (
	"encoding/binary"
	"fmt"
	"strings"

	"github.com/MixinNetwork/mixin/common"
	"github.com/MixinNetwork/mixin/crypto"
	"github.com/MixinNetwork/mixin/verifmc"
)

// C28, history part. The chain rule compares the next operation with the
// RECORDED previous consensus snapshot. The same consensus transaction may be
// finalized again in another snapshot (another chain, sync, start-up replay):
// its bookkeeping (reloadConsensusState -> WriteConsensusSnapshot) is a durable
// no-op and must not change what "the last recorded consensus snapshot" is.
//
// Enumerated: X in {mint, custodian update (, pledge)} recorded via S1@T; every
// sequence of length <= 3 over {replay X in a new snapshot of another chain at
// T-d / T / T+d, reopen (fresh store handle + fresh SetupNode)}; then the next
// operation Y (referencing X) is offered at T-d+1, T, T+1, T+d+1 and recorded
// at T+1.

const c28HistD = 1000 // nanoseconds

var c28HistSyms = []string{"replay@T-d", "replay@T", "replay@T+d", "reopen"}

// durableTail reads the last CONSENSUSSNAPSHOT record in key order.
func (w *c28World) durableTail() (ts uint64, snap crypto.Hash, ok bool) {
	dump := w.m.Store.VerifDump("CONSENSUSSNAPSHOT")
	keys := verifmc.SortedKeys(dump)
	if len(keys) == 0 {
		return 0, snap, false
	}
	kb := c28Unhex(keys[len(keys)-1])
	pl := len("CONSENSUSSNAPSHOT")
	ts = binary.BigEndian.Uint64(kb[pl : pl+8])
	copy(snap[:], kb[pl+8:])
	return ts, snap, true
}

// historyCheck: the answer of the long-running store, of a fresh handle and
// the durable record walk agree on the last recorded consensus snapshot.
func (w *c28World) historyCheck(where string, report func(key, desc string)) {
	ts, snap, ok := w.durableTail()
	if !ok {
		w.violate(report, "records:dangling", "no consensus record at all "+where)
		return
	}
	read := func(name string, f func() (*common.Snapshot, error)) {
		var got *common.Snapshot
		var err error
		p := verifmc.Catch(func() { got, err = f() })
		if p != nil || err != nil || got == nil {
			w.violate(report, "history:last-consensus-unreadable", fmt.Sprintf("%s: ReadLastConsensusSnapshot on the %s store fails: %v %v", where, name, p, err))
			return
		}
		if got.PayloadHash() != snap || got.Timestamp != ts {
			// reported without abandoning the history: the chain rule is judged next
			report("history:last-consensus-differs-from-durable", fmt.Sprintf("%s: the %s store answers snapshot %s@%d as the last recorded consensus snapshot, the durable record is %s@%d", where, name, got.PayloadHash(), got.Timestamp, snap, ts))
		}
	}
	read("long-running", w.node.persistStore.ReadLastConsensusSnapshot)
	read("freshly opened", w.m.Store.VerifC28FreshHandle().ReadLastConsensusSnapshot)
}

// reopen replaces the store handle and the node by fresh ones over the same
// durable state (process restart).
func (w *c28World) reopen(report func(key, desc string)) bool {
	fresh := w.m.Store.VerifC28FreshHandle()
	old := w.m
	var m2 *mcNode
	var err error
	p, stack := c28Catch(func() { m2, err = newMCNodeOnStore(old.Net, 0, fresh) })
	if p != nil || err != nil {
		// SetupNode closed nothing we can reuse; keep the old node for Close
		w.violate(report, "history:restart-fails:"+c28Site(stack), fmt.Sprintf("SetupNode on the reopened store fails after an accepted history: %v %v", p, err))
		return false
	}
	old.Abandon()
	m2.Node.persistStore = &c28Store{Store: fresh}
	w.m, w.node = m2, m2.Node
	return true
}

// replay finalizes the last recorded operation X again in a new snapshot of
// another chain at T+delta through the real bookkeeping path.
func (w *c28World) replay(n int, delta int64, report func(key, desc string)) (accepted bool) {
	op := w.last()
	tx, orig := w.txs[op.Tx], w.snaps[op.Snap]
	var ids []crypto.Hash
	for _, id := range w.m.Net.NodeIds[1:] {
		if id != orig.NodeId {
			ids = append(ids, id)
		}
	}
	s := w.snapshot(ids[n%len(ids)], uint64(int64(op.Ts)+delta), op.Tx)
	if s == nil {
		return false
	}
	var refErr error
	p, stack := c28Catch(func() { refErr = w.node.validateConsensusTransactionReferences(s, tx) })
	if p != nil {
		w.c.Require(false, "validateConsensusTransactionReferences panics at %s for a replay: %v", c28Site(stack), p)
		return false
	}
	if refErr != nil {
		w.c.Stricter("re-delivery of the last recorded operation in another snapshot is refused")
		return false
	}
	what := fmt.Sprintf("replay of %s@%d in a snapshot of another chain @%d", c28Kinds[op.Kind], op.Ts, s.Timestamp)
	return w.finalize(s, tx, true, what, report)
}

func c28History(c *verifmc.Check) {
	var seqs [][]int
	verifmc.Sequences(len(c28HistSyms), 0, 3, func(s []int) bool {
		seqs = append(seqs, append([]int{}, s...))
		return true
	})
	xs := verifmc.Pick(c, []int{c28Mint, c28Custodian}, []int{c28Mint, c28Custodian, c28Pledge})
	total := len(seqs) * len(xs)
	c.ParallelN(total, "C28 history part", func(_, i int) {
		kx, seq := xs[i/len(seqs)], seqs[i%len(seqs)]
		ky := c28Custodian
		if kx == c28Custodian {
			ky = c28Mint
		}
		var names []string
		for _, s := range seq {
			names = append(names, c28HistSyms[s])
		}
		label := fmt.Sprintf("X=%s|%s", c28Kinds[kx], strings.Join(names, ","))
		report := func(key, desc string) {
			c.Violation(key, desc, map[string]any{"part": "history", "x": c28Kinds[kx], "sequence": names, "y": c28Kinds[ky], "d_ns": c28HistD})
		}
		w := c28NewWorld(c)
		if w == nil {
			return
		}
		defer func() { w.close() }()
		c.Eval(1)
		c.Distinct("history|" + label)
		if !c28Apply(w, c28Event(kx, 0, 3), false, report) || !w.lastRecorded {
			c.Require(false, "history %s: X was not recorded (%s)", label, w.lastWhy)
			return
		}
		T := w.last().Ts
		w.historyCheck("after recording X ("+label+")", report)
		replayed := false
		deltas := []int64{-c28HistD, 0, c28HistD}
		for n, s := range seq {
			if w.broken {
				return
			}
			if s == 3 {
				if !w.reopen(report) {
					return
				}
				c.Outcome("history:reopen")
			} else if w.replay(n, deltas[s], report) {
				replayed = true
				c.Outcome("history:" + c28HistSyms[s] + ":bookkeeping-replayed")
			}
			w.historyCheck(fmt.Sprintf("after %v (%s)", names[:n+1], label), report)
			if !w.broken {
				c28CheckRecords(w, report)
			}
		}
		if w.broken {
			return
		}
		// the next operation Y, referencing X
		tag := "no-replay"
		if replayed {
			tag = "after-replay"
		}
		ty := w.build(ky, []crypto.Hash{w.last().Tx})
		if ty == nil {
			c.Require(false, "history %s: Y cannot be built (%s)", label, w.lastWhy)
			return
		}
		for _, off := range []int64{-c28HistD + 1, 0, 1, c28HistD + 1} {
			ts := uint64(int64(T) + off)
			s := w.snapshot(w.elected(c28Types[ky], ts), ts, ty.PayloadHash())
			if s == nil {
				return
			}
			var refErr error
			p, stack := c28Catch(func() { refErr = w.node.validateConsensusTransactionReferences(s, ty) })
			if p != nil {
				c.Require(false, "validateConsensusTransactionReferences panics at %s: %v", c28Site(stack), p)
				return
			}
			c.Eval(1)
			allowed := ts > T
			what := fmt.Sprintf("%s referencing the recorded %s (S1@T=%d) at T%+d after [%s]", c28Kinds[ky], c28Kinds[kx], T, off, strings.Join(names, ","))
			switch {
			case refErr == nil && !allowed:
				w.violate(report, "chain:accepted:ts-not-after-recorded:"+tag, "validateConsensusTransactionReferences accepts "+what)
			case refErr == nil:
				c.Outcome("history:Y:accept")
			case allowed:
				c.Outcome("history:Y:refused-although-later")
				c.Stricter("a later operation is refused after a replay of its predecessor at a later time")
			default:
				c.Outcome("history:Y:refused-not-later")
			}
			if !allowed {
				if ok, _ := w.full(s, ty); ok {
					w.violate(report, "chain:admitted:ts-not-after-recorded:"+tag, "validateSnapshotTransaction (finalized) admits "+what)
				}
			}
			if w.broken {
				return
			}
		}
		// record Y at T+1 through the complete event of part 2, then restart
		c28Apply(w, c28Event(ky, 0, 2), false, report)
		if w.broken {
			return
		}
		if w.lastRecorded {
			c.Outcome("history:Y:recorded@T+1")
		}
		w.historyCheck("after Y ("+label+")", report)
		if w.reopen(report) {
			w.historyCheck("after Y and a restart ("+label+")", report)
			if !w.broken {
				c28CheckRecords(w, report)
			}
		}
	})
	c.Set("history_sequences", len(seqs))
	c.Set("history_cases", total)
	if c.Violations() > 0 || c.Expired("C28 history guards") {
		return
	}
	c.Require(c.OutcomeCount("history:replay@T-d:bookkeeping-replayed") > 0 && c.OutcomeCount("history:replay@T+d:bookkeeping-replayed") > 0 && c.OutcomeCount("history:reopen") > 0,
		"vacuous history part: replays %d/%d, reopen %d", c.OutcomeCount("history:replay@T-d:bookkeeping-replayed"), c.OutcomeCount("history:replay@T+d:bookkeeping-replayed"), c.OutcomeCount("history:reopen"))
	c.Require(c.OutcomeCount("history:Y:accept") > 0 && c.OutcomeCount("history:Y:refused-not-later") > 0 && c.OutcomeCount("history:Y:recorded@T+1") > 0,
		"vacuous history part: Y accepted %d refused %d recorded %d", c.OutcomeCount("history:Y:accept"), c.OutcomeCount("history:Y:refused-not-later"), c.OutcomeCount("history:Y:recorded@T+1"))
}
