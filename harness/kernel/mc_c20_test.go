//go:build verif

package kernel

import (
	"fmt"
	"os"
	"sort"
	"strings"
	"sync"
	"syscall"
	"testing"
	"time"

	"github.com/MixinNetwork/mixin/common"
	"github.com/MixinNetwork/mixin/crypto"
	"github.com/MixinNetwork/mixin/verifmc"
	"github.com/MixinNetwork/mixin/verifmc/fixc"
)

// C20 — round links only move forward and never point at their own chain.
//
// Explicit-state BFS (E2) over all histories of round transitions of chain A of
// a real 7-chain fixture node: the real startNewRoundAndPersist /
// updateEmptyHeadRoundAndPersist are offered every combination of a reference
// menu (correct / stale / garbage self x older / current / newer / not yet
// final / own / unknown / head-record external) with both finalized and both
// strict flags, interleaved with real AddSnapshot on A and real snapshots /
// round closings on the referenced chains B and C.

const (
	c20A = iota // NodeIds[1]: the chain whose transitions are explored
	c20B        // NodeIds[2]: offers r0,r1 final, r2 after one event
	c20C        // NodeIds[3]: offers r0 final, r1 after one event
	c20D        // NodeIds[4]: only referenced by C's closings
)

var c20Names = [4]string{"A", "B", "C", "D"}

// per-chain clock offsets (ns): A's snapshots of round n are later than the
// start of B.rn / C.rn and earlier than B.r(n+1) / C.r(n+1).
var c20Off = [4]uint64{5e6, 1e6, 2e6, 3e6}

const c20Delta = 10 * uint64(time.Second)

// c20Time is the timestamp of snapshot idx of round `round` of chain k: a pure
// function, so that every round hash is independent of the event order.
func c20Time(k int, round uint64, idx int) uint64 {
	return mcNet7.Epoch + 25*uint64(time.Hour) + round*c20Delta + uint64(idx)*uint64(time.Second) + c20Off[k]
}

const (
	c20KSnapA = iota
	c20KAdvB
	c20KAdvC
	c20KStart
	c20KUpdate
)

const (
	c20SelfCorrect = iota
	c20SelfStale
	c20SelfGarbage
)

var c20SelfNames = []string{"correct", "stale", "garbage"}

const (
	c20ExtB0 = iota
	c20ExtB1
	c20ExtB2
	c20ExtC1
	c20ExtOwn
	c20ExtUnknown
	c20ExtBHead
)

var c20ExtNames = []string{"B.r0", "B.r1", "B.r2", "C.r1", "A.final", "unknown", "B.headkey"}

type c20Event struct {
	kind int
	flag bool // finalized (start) / strict (update)
	self int
	ext  int
	tsm  int // start only: candidate timestamp relative to the closing round (c20TsNames)
	name string
}

// timestamp of a round start: the stamp of the first snapshot of the next
// round (what an honest proposer uses), or a stamp placed around the END of
// the round being closed (its last snapshot): 1 ns before, equal, 1 ns after.
const (
	c20TsNext = iota
	c20TsEndMinus1
	c20TsEnd
	c20TsEndPlus1
)

var c20TsNames = []string{"next-round", "final.End-1", "final.End", "final.End+1"}

var c20Events []c20Event

func c20BuildEvents() {
	c20Events = []c20Event{{kind: c20KSnapA, name: "A.snap"}, {kind: c20KAdvB, name: "B.adv"}, {kind: c20KAdvC, name: "C.adv"}}
	type ref struct{ self, ext int }
	var refs []ref
	// full product: on the unchanged tree a wrong self reference is refused
	// before the external one is looked at (cheap self-loops); a tree that
	// skips that test needs an acceptable external to get further
	for s := range c20SelfNames {
		for x := range c20ExtNames {
			refs = append(refs, ref{s, x})
		}
	}
	// round starts stamped around the end of the closing round, with valid
	// forward references, on the strict and on the finalized path
	for _, flag := range []bool{false, true} {
		for _, x := range []int{c20ExtB1, c20ExtC1} {
			for _, tsm := range []int{c20TsEndMinus1, c20TsEnd, c20TsEndPlus1} {
				c20Events = append(c20Events, c20Event{kind: c20KStart, flag: flag, self: c20SelfCorrect, ext: x, tsm: tsm,
					name: fmt.Sprintf("start(finalized=%v,self=correct,ext=%s,ts=%s)", flag, c20ExtNames[x], c20TsNames[tsm])})
			}
		}
	}
	for _, kind := range []int{c20KStart, c20KUpdate} {
		for _, flag := range []bool{false, true} {
			for _, r := range refs {
				n := "start(finalized=%v,self=%s,ext=%s)"
				if kind == c20KUpdate {
					n = "update(strict=%v,self=%s,ext=%s)"
				}
				c20Events = append(c20Events, c20Event{kind: kind, flag: flag, self: r.self, ext: r.ext, name: fmt.Sprintf(n, flag, c20SelfNames[r.self], c20ExtNames[r.ext])})
			}
		}
	}
}

// hashes of the rounds B and C will ever close (computed once by a scout run)
var c20Tab struct {
	b [3]crypto.Hash
	c [2]crypto.Hash
}

type c20Inst struct {
	m    *mcNode
	id   [4]crypto.Hash
	ch   [4]*Chain
	ext0 [4]crypto.Hash // the genesis external reference of each chain
}

func (in *c20Inst) Close() { in.m.Close() }

func c20New() (*c20Inst, error) {
	m, err := newMCNode(mcNet7, 0, "")
	if err != nil {
		return nil, err
	}
	in := &c20Inst{m: m}
	for _, id := range mcNet7.NodeIds {
		if ch := m.chainOf(id); ch == nil || ch.State == nil {
			m.Close()
			return nil, fmt.Errorf("chain %s not loaded", id)
		}
	}
	for k := range 4 {
		in.id[k] = mcNet7.NodeIds[1+k]
		in.ch[k] = m.chainOf(in.id[k])
		in.ext0[k] = in.ch[k].State.CacheRound.References.External
	}
	// prefix, through the same real functions the events use:
	// B: snapshot in r1, close r1, snapshot in r2 -> B.r0,B.r1 final, head 2 non-empty
	// C: snapshot in r1                          -> C.r0 final, head 1 non-empty
	steps := []func() error{
		func() error { return in.addSnap(c20B) }, func() error { return in.closeRound(c20B) }, func() error { return in.addSnap(c20B) },
		func() error { return in.addSnap(c20C) },
	}
	for i, f := range steps {
		var err error
		if p := verifmc.Catch(func() { err = f() }); p != nil || err != nil {
			m.Close()
			return nil, fmt.Errorf("fixture prefix step %d: %v %v", i, p, err)
		}
	}
	return in, nil
}

// addSnap finalizes one real one-transaction snapshot in the head round of
// chain k the way cosiHandleFinalization does after verifyFinalization:
// transaction locked and written, ValidateSnapshot, AddSnapshot (TopoWrite).
func (in *c20Inst) addSnap(k int) error {
	chain := in.ch[k]
	cache, final := chain.StateCopy()
	idx := len(cache.Snapshots)
	wallet := fixc.Addr("c20-wallet")
	tx := mcNet7.DepositXIN(fmt.Sprintf("c20-%s-%d-%d", c20Names[k], cache.Number, idx), "1", []*common.Address{&wallet}, 1)
	if err := tx.LockInputs(in.m.Store, false); err != nil {
		return err
	}
	if err := in.m.Store.WriteTransaction(tx); err != nil {
		return err
	}
	s := &common.Snapshot{Version: common.SnapshotVersionCommonEncoding, NodeId: in.id[k], RoundNumber: cache.Number, References: cache.References.Copy(), Timestamp: c20Time(k, cache.Number, idx)}
	s.AddTransaction(tx.PayloadHash())
	s.Hash = s.PayloadHash()
	s.Signature = &crypto.CosiSignature{Mask: 1}
	if err := cache.ValidateSnapshot(s); err != nil {
		return err
	}
	return chain.AddSnapshot(final, cache, s, []crypto.Hash{in.id[k]})
}

// closeRound closes the head round of B or C (finalized path, as
// prepareFinalization does) referencing the chain's genesis external round.
func (in *c20Inst) closeRound(k int) error {
	chain := in.ch[k]
	cache := chain.State.CacheRound
	f := chain.State.CacheRound.Copy().asFinal()
	if f == nil {
		return fmt.Errorf("nothing to close on %s", c20Names[k])
	}
	_, nf, dummy, err := chain.startNewRoundAndPersist(cache, &common.RoundLink{Self: f.Hash, External: in.ext0[k]}, c20Time(k, cache.Number+1, 0), true)
	if err != nil || nf == nil || dummy {
		return fmt.Errorf("closing %s.r%d failed: %v %v %v", c20Names[k], cache.Number, err, nf, dummy)
	}
	return nil
}

func (in *c20Inst) extHash(x int) crypto.Hash {
	switch x {
	case c20ExtB0:
		return c20Tab.b[0]
	case c20ExtB1:
		return c20Tab.b[1]
	case c20ExtB2:
		return c20Tab.b[2]
	case c20ExtC1:
		return c20Tab.c[1]
	case c20ExtOwn:
		return in.ch[c20A].State.FinalRound.Hash
	case c20ExtBHead:
		return in.id[c20B]
	}
	return fixc.Hash("c20-unknown-external")
}

func (in *c20Inst) nodeName(id crypto.Hash) string {
	for i, n := range mcNet7.NodeIds {
		if n == id {
			if i >= 1 && i <= 4 {
				return c20Names[i-1]
			}
			return fmt.Sprintf("N%d", i)
		}
	}
	return "?" + id.String()[:8]
}

// roundName renders a round hash as <chain>.r<number> (or .head for a head record).
func (in *c20Inst) roundName(h crypto.Hash) string {
	r, err := in.m.Store.ReadRound(h)
	if err != nil || r == nil {
		return "unknown"
	}
	if r.Hash == r.NodeId {
		return fmt.Sprintf("%s.head%d", in.nodeName(r.NodeId), r.Number)
	}
	return fmt.Sprintf("%s.r%d", in.nodeName(r.NodeId), r.Number)
}

// c20Obs is everything the statement speaks about, observed at one instant.
type c20Obs struct {
	store     string // ROUND and LINK keys, raw
	rounds    map[string]string
	links     map[string]string
	chain     string // ChainState of A
	cacheNum  uint64
	cacheSelf crypto.Hash
	cacheExt  crypto.Hash
	nsnaps    int
	final     FinalRound
	link      [7]uint64 // store.ReadLink(A, NodeIds[i])
	mem       [7]uint64 // State.RoundLinks[NodeIds[i]]
	memExtra  string    // RoundLinks entries for ids that are no node
}

func c20DumpString(m map[string]string) string {
	ks := make([]string, 0, len(m))
	for k := range m {
		ks = append(ks, k)
	}
	sort.Strings(ks)
	var b strings.Builder
	for _, k := range ks {
		b.WriteString(k)
		b.WriteByte('=')
		b.WriteString(m[k])
		b.WriteByte('\n')
	}
	return b.String()
}

func (in *c20Inst) observe() *c20Obs {
	o := &c20Obs{}
	o.rounds = in.m.Store.VerifDump("ROUND")
	o.links = in.m.Store.VerifDump("LINK")
	o.store = c20DumpString(o.rounds) + "--\n" + c20DumpString(o.links)
	st := in.ch[c20A].State
	cr := st.CacheRound
	o.cacheNum, o.cacheSelf, o.cacheExt, o.nsnaps = cr.Number, cr.References.Self, cr.References.External, len(cr.Snapshots)
	o.final = *st.FinalRound
	var sh []string
	for _, s := range cr.Snapshots {
		sh = append(sh, s.Hash.String())
	}
	sort.Strings(sh)
	known := map[crypto.Hash]bool{}
	for i, id := range mcNet7.NodeIds {
		known[id] = true
		l, err := in.m.Store.ReadLink(in.id[c20A], id)
		if err != nil {
			panic(err)
		}
		o.link[i], o.mem[i] = l, st.RoundLinks[id]
	}
	var extra []string
	for id, n := range st.RoundLinks {
		if !known[id] {
			extra = append(extra, fmt.Sprintf("%s:%d", id, n))
		}
	}
	sort.Strings(extra)
	o.memExtra = strings.Join(extra, ",")
	var hist []string
	for _, r := range st.RoundHistory {
		hist = append(hist, fmt.Sprintf("%d:%s", r.Number, r.Hash))
	}
	o.chain = fmt.Sprintf("cache{%s n=%d self=%s ext=%s snaps=%v} final{%s n=%d %d..%d %s} links=%v extra=%s history=%v",
		cr.NodeId, cr.Number, cr.References.Self, cr.References.External, sh,
		o.final.NodeId, o.final.Number, o.final.Start, o.final.End, o.final.Hash, o.mem, o.memExtra, hist)
	return o
}

func (in *c20Inst) key() string {
	o := in.observe()
	b, cc := in.ch[c20B].State.CacheRound, in.ch[c20C].State.CacheRound
	return fmt.Sprintf("A:n=%d,s=%d,ext=%s,final=%d|link=%v|mem=%v%s|B:n=%d,s=%d|C:n=%d,s=%d",
		o.cacheNum, o.nsnaps, in.roundName(o.cacheExt), o.final.Number, o.link, o.mem, o.memExtra, b.Number, len(b.Snapshots), cc.Number, len(cc.Snapshots))
}

// storedRoundHash recomputes the hash of round (node, number) from the
// snapshots in the store; ok=false when the round holds no snapshot.
func (in *c20Inst) storedRoundHash(node crypto.Hash, number uint64) (start uint64, hash crypto.Hash, n int, err error) {
	topos, err := in.m.Store.ReadSnapshotsForNodeRound(node, number)
	if err != nil || len(topos) == 0 {
		return 0, crypto.Hash{}, 0, err
	}
	snaps := make([]*common.Snapshot, len(topos))
	for i, t := range topos {
		s := t.Snapshot
		s.Hash = s.PayloadHash()
		snaps[i] = s
	}
	start, _, hash = common.ComputeRoundHash(node, number, snaps)
	return start, hash, len(snaps), nil
}

func c20ErrClass(err error) string {
	if err == nil {
		return "nil-final"
	}
	s := err.Error()
	for _, k := range [][2]string{
		{"snapshots not collected", "cache-empty"}, {"snapshots not match", "self-mismatch"},
		{"not collected yet", "external-unknown"}, {"not ready yet", "external-unknown"},
		{"external reference self", "external-self"}, {"back link", "back-link"},
		{"later than snapshot time", "strict-later-than-round"}, {"without extra final", "strict-no-extra-final"},
		{"too future", "strict-future"}, {"not genesis", "strict-not-genesis"}, {"too early", "strict-too-early"},
		{"references not empty", "head-not-empty"}, {"references self diff", "self-mismatch"},
	} {
		if strings.Contains(s, k[0]) {
			return k[1]
		}
	}
	// a refusal reason this harness has no name for: still subject to the
	// generic "a refused transition changes nothing" oracle
	var words []string
	for _, w := range strings.Fields(s) {
		if !strings.ContainsAny(w, "0123456789") && len(words) < 7 {
			words = append(words, w)
		}
	}
	return "other:" + strings.Join(words, "-")
}

const (
	c20Disabled = iota
	c20Rejected // refused, state verified unchanged: a self-loop, the instance can be used further
	c20Moved    // the state changed (accepted transition or environment event)
	c20Broken   // panic or refused-but-changed: the instance must not be used further
)

type c20Reporter func(key, desc string)

// apply executes event e. check=false while a history is replayed.
func (in *c20Inst) apply(c *verifmc.Check, e int, check bool, report c20Reporter) int {
	ev := c20Events[e]
	switch ev.kind {
	case c20KSnapA, c20KAdvB, c20KAdvC:
		k := map[int]int{c20KSnapA: c20A, c20KAdvB: c20B, c20KAdvC: c20C}[ev.kind]
		cr := in.ch[k].State.CacheRound
		var err error
		var p any
		var envBefore *c20Obs
		if check {
			envBefore = in.observe()
		}
		switch {
		case k == c20A:
			if len(cr.Snapshots) >= 2 {
				return c20Disabled
			}
			p = verifmc.Catch(func() { err = in.addSnap(k) })
		case len(cr.Snapshots) == 0:
			p = verifmc.Catch(func() { err = in.addSnap(k) })
		default:
			if (k == c20B && cr.Number >= 3) || (k == c20C && cr.Number >= 2) {
				return c20Disabled
			}
			number := cr.Number
			p = verifmc.Catch(func() { err = in.closeRound(k) })
			if p == nil && err == nil {
				want := c20Tab.b[min(number, 2)]
				if k == c20C {
					want = c20Tab.c[min(number, 1)]
				}
				got := in.ch[k].State.FinalRound.Hash
				c.Require(got == want, "round hash of %s.r%d depends on the history: %s vs scout %s", c20Names[k], number, got, want)
			}
		}
		c.Require(p == nil && err == nil, "environment event %s failed: %v %v", ev.name, p, err)
		if p != nil || err != nil {
			return c20Broken
		}
		if check {
			// snapshots and round closings elsewhere never touch A's links
			o := in.observe()
			if o.link != envBefore.link || o.mem != envBefore.mem || o.memExtra != envBefore.memExtra {
				report("environment:links-changed", fmt.Sprintf("%s changed the links of A: stored %v -> %v, memory %v -> %v", ev.name, envBefore.link, o.link, envBefore.mem, o.mem))
			}
			if k != c20A && o.chain != envBefore.chain {
				report("environment:chainstate-changed", fmt.Sprintf("%s changed the chain state of A from %s to %s", ev.name, envBefore.chain, o.chain))
			}
			c.Outcome("env:" + ev.name)
		}
		return c20Moved
	}

	chain := in.ch[c20A]
	cacheCopy, finalCopy := chain.StateCopy()
	refs := &common.RoundLink{External: in.extHash(ev.ext)}
	var before *c20Obs
	if check {
		before = in.observe()
	}
	var err error
	var nc *CacheRound
	var nf *FinalRound
	var dummy bool
	var p any
	var site string
	var ts uint64
	what := "start"
	if ev.kind == c20KStart {
		cur := cacheCopy.Copy().asFinal()
		switch ev.self {
		case c20SelfCorrect:
			refs.Self = cacheCopy.References.Self
			if cur != nil {
				refs.Self = cur.Hash
			}
		case c20SelfStale:
			refs.Self = cacheCopy.References.Self // the previous final round, already stored
		default:
			refs.Self = fixc.Hash("c20-garbage-self")
		}
		ts = c20Time(c20A, cacheCopy.Number+1, 0)
		if ev.tsm != c20TsNext {
			if cur == nil {
				return c20Disabled // no closing round to relate the stamp to ("cache-empty" is covered by the next-round stamps)
			}
			ts = cur.End + uint64(ev.tsm-c20TsEnd) // End-1, End, End+1
		}
		cache := cacheCopy // cosiSendAnnouncement / checkAnnouncementOrChallenge pass a copy
		if ev.flag {
			cache = chain.State.CacheRound // prepareFinalization passes the live round
		}
		p, site = verifmc.CatchSite(func() { nc, nf, dummy, err = chain.startNewRoundAndPersist(cache, refs, ts, ev.flag) })
	} else {
		what = "update"
		switch ev.self {
		case c20SelfCorrect:
			refs.Self = cacheCopy.References.Self
		case c20SelfStale:
			// the round before the previous one (or, on round 1, the hash the
			// current snapshots would close to / another chain's round)
			refs.Self = c20Tab.b[0]
			if r, _ := in.m.Store.ReadRound(cacheCopy.References.Self); r != nil && r.References != nil {
				refs.Self = r.References.Self
			}
		default:
			refs.Self = fixc.Hash("c20-garbage-self")
		}
		ts = c20Time(c20A, cacheCopy.Number, 0)
		p, site = verifmc.CatchSite(func() { err = chain.updateEmptyHeadRoundAndPersist(finalCopy, cacheCopy, refs, ts, ev.flag) })
	}
	if !check {
		if p != nil {
			return c20Broken
		}
		if err != nil || (ev.kind == c20KStart && nf == nil) {
			return c20Rejected
		}
		return c20Moved
	}

	input := fmt.Sprintf("%s on A{head %d, %d snapshots, ext %s, links B=%d C=%d} with self=%s(%s) external=%s(%s) ts=%d", ev.name, before.cacheNum, before.nsnaps,
		in.roundName(before.cacheExt), before.link[2], before.link[3], c20SelfNames[ev.self], refs.Self.String()[:8], c20ExtNames[ev.ext], in.roundName(refs.External), ts)
	if p != nil {
		c.Outcome(what + ":panic")
		_ = site // empty in scratch worktrees (paths outside /repo): the key is built from the message
		report(fmt.Sprintf("panic:%s:%s", what, c20Slug(fmt.Sprint(p))), fmt.Sprintf("%s passed the kernel-level validation and then panicked: %v", input, p))
		return c20Broken
	}
	after := in.observe()
	if err != nil || (ev.kind == c20KStart && nf == nil) {
		cls := c20ErrClass(err)
		c.Outcome(what + ":reject:" + cls)
		c.Outcome(fmt.Sprintf("%s(%v):reject:%s", what, ev.flag, cls))
		if before.store != after.store {
			report("rejected-but-store-changed:"+what+":"+cls, fmt.Sprintf("%s was refused (%v) but the ROUND/LINK keys changed: %s", input, err, c20Diff(before, after)))
			return c20Broken
		}
		if before.chain != after.chain {
			report("rejected-but-chainstate-changed:"+what+":"+cls, fmt.Sprintf("%s was refused (%v) but the chain state changed from %s to %s", input, err, before.chain, after.chain))
			return c20Broken
		}
		return c20Rejected
	}

	// ---- accepted transition ----
	A := in.id[c20A]
	store := in.m.Store
	st := chain.State
	head, herr := store.ReadRound(A)
	if herr != nil || head == nil || head.References == nil {
		report("accepted:head-unreadable", fmt.Sprintf("%s: head record unreadable %v %v", input, head, herr))
		return c20Broken
	}
	if ev.kind == c20KStart {
		o := "start:accept"
		if dummy {
			o = "start:accept-dummy"
		}
		c.Outcome(o)
		c.Outcome(fmt.Sprintf("%s(%v)", o, ev.flag))
		if ev.tsm != c20TsNext {
			c.Outcome(fmt.Sprintf("%s(%v):ts=%s", o, ev.flag, c20TsNames[ev.tsm]))
		}
		if nc.Number != before.cacheNum+1 || after.cacheNum != before.cacheNum+1 || head.Number != before.cacheNum+1 || nf.Number != before.cacheNum || after.final.Number != before.cacheNum {
			report("accepted:number-not-plus-one", fmt.Sprintf("%s: returned cache %d, state cache %d, stored head %d, final %d/%d; expected %d and %d", input, nc.Number, after.cacheNum, head.Number, nf.Number, after.final.Number, before.cacheNum+1, before.cacheNum))
		}
		start, hash, n, serr := in.storedRoundHash(A, before.cacheNum)
		if serr != nil || n == 0 {
			report("accepted:closed-round-empty", fmt.Sprintf("%s: the closed round %d holds no stored snapshot (%v)", input, before.cacheNum, serr))
		} else {
			if refs.Self != hash || nf.Hash != hash || after.final.Hash != hash || after.cacheSelf != hash || head.References.Self != hash {
				report("accepted:self-not-previous-final-hash", fmt.Sprintf("%s: hash of the %d stored snapshots of round %d is %s; refs.Self=%s final=%s state.final=%s cache.self=%s stored head.self=%s", input, n, before.cacheNum, hash, refs.Self, nf.Hash, after.final.Hash, after.cacheSelf, head.References.Self))
			}
			rec, rerr := store.ReadRound(hash)
			if rerr != nil || rec == nil || rec.Hash != hash || rec.NodeId != A || rec.Number != before.cacheNum || rec.Timestamp != start {
				report("accepted:previous-round-record", fmt.Sprintf("%s: stored record of the closed round %s is %+v (%v), expected node A number %d start %d", input, hash, rec, rerr, before.cacheNum, start))
			}
			if r2, _ := store.ReadRound(refs.Self); r2 == nil || r2.Hash != refs.Self || r2.NodeId != A || r2.Number != before.cacheNum {
				report("accepted:self-record-missing", fmt.Sprintf("%s: ReadRound(refs.Self) = %+v", input, r2))
			}
		}
		wantExt := refs.External
		if dummy {
			wantExt = before.cacheExt
			if !ev.flag {
				report("accepted:dummy-not-finalized", fmt.Sprintf("%s: dummy round start outside the finalized path", input))
			}
		}
		if head.References.External != wantExt || after.cacheExt != wantExt {
			report("accepted:external-not-stored", fmt.Sprintf("%s: stored external %s, state external %s, expected %s (dummy=%v)", input, head.References.External, after.cacheExt, wantExt, dummy))
		}
		if added, changed, removed := c20Delta2(before.rounds, after.rounds); added != 1 || changed != 1 || removed != 0 {
			report("accepted:round-frame", fmt.Sprintf("%s: ROUND keys added=%d changed=%d removed=%d, expected 1/1/0", input, added, changed, removed))
		}
	} else {
		c.Outcome("update:accept")
		c.Outcome(fmt.Sprintf("update:accept(%v)", ev.flag))
		if after.cacheNum != before.cacheNum || head.Number != before.cacheNum || after.final != before.final || after.nsnaps != 0 || before.nsnaps != 0 {
			report("accepted:update-moved-round", fmt.Sprintf("%s: cache %d->%d stored head %d final %+v->%+v snapshots %d->%d", input, before.cacheNum, after.cacheNum, head.Number, before.final, after.final, before.nsnaps, after.nsnaps))
		}
		if refs.Self != before.cacheSelf || after.cacheSelf != before.cacheSelf || head.References.Self != before.cacheSelf || before.cacheSelf != before.final.Hash {
			report("accepted:self-not-previous-final-hash", fmt.Sprintf("%s: refs.Self=%s, previous final %s, state self %s, stored self %s", input, refs.Self, before.final.Hash, after.cacheSelf, head.References.Self))
		}
		if head.References.External != refs.External || after.cacheExt != refs.External {
			report("accepted:external-not-stored", fmt.Sprintf("%s: stored external %s, state external %s", input, head.References.External, after.cacheExt))
		}
		if added, changed, removed := c20Delta2(before.rounds, after.rounds); added != 0 || changed > 1 || removed != 0 {
			report("accepted:round-frame", fmt.Sprintf("%s: ROUND keys added=%d changed=%d removed=%d, expected 0/<=1/0", input, added, changed, removed))
		}
	}
	if st.CacheRound.Number != st.FinalRound.Number+1 || st.CacheRound.NodeId != A || st.FinalRound.NodeId != A {
		report("accepted:state-shape", fmt.Sprintf("%s: cache %s/%d final %s/%d", input, st.CacheRound.NodeId, st.CacheRound.Number, st.FinalRound.NodeId, st.FinalRound.Number))
	}
	// the external reference now stored: a known FINAL round of another node
	extNode := -1
	terminal := false
	x, xerr := store.ReadRound(head.References.External)
	switch {
	case xerr != nil || x == nil:
		report("accepted:external-unknown", fmt.Sprintf("%s: the stored external reference %s is no stored round (%v)", input, head.References.External, xerr))
	case x.NodeId == A:
		report("accepted:external-own-chain", fmt.Sprintf("%s: the stored external reference is round %d of the chain itself", input, x.Number))
	default:
		for i, id := range mcNet7.NodeIds {
			if id == x.NodeId {
				extNode = i
			}
		}
		_, xh, xn, _ := in.storedRoundHash(x.NodeId, x.Number)
		xhead, _ := store.ReadRound(x.NodeId)
		if x.Hash == x.NodeId && x.Hash == head.References.External {
			// the ROUND key space is shared by final rounds (keyed by hash) and
			// head rounds (keyed by node id): a node id is accepted as a reference
			report("accepted:external-is-head-record", fmt.Sprintf("%s: the stored external reference %s is the node id of %s and resolves to that chain's open head round %d (link A->%s = %d) which is not final", input, head.References.External, in.nodeName(x.NodeId), x.Number, in.nodeName(x.NodeId), x.Number))
			terminal = true
		} else if x.Hash != head.References.External || xn == 0 || xh != x.Hash || xhead == nil || xhead.Number <= x.Number || extNode < 0 {
			report("accepted:external-not-final", fmt.Sprintf("%s: the stored external reference %s resolves to %s number %d hash %s (head record: %v, %d stored snapshots hashing to %s, that chain's head is %v): not a final round", input, head.References.External, in.nodeName(x.NodeId), x.Number, x.Hash, x.Hash == x.NodeId, xn, xh, xhead))
		}
		if extNode >= 0 && after.link[extNode] != x.Number {
			report("accepted:link-not-reference", fmt.Sprintf("%s: link A->%s is %d, the referenced round is %d", input, in.nodeName(x.NodeId), after.link[extNode], x.Number))
		}
	}
	for i, id := range mcNet7.NodeIds {
		if after.link[i] < before.link[i] {
			report("accepted:link-decreased", fmt.Sprintf("%s: stored link A->%s went from %d to %d", input, in.nodeName(id), before.link[i], after.link[i]))
		}
		if after.link[i] != after.mem[i] {
			report("accepted:link-differs-from-memory", fmt.Sprintf("%s: stored link A->%s = %d, State.RoundLinks = %d", input, in.nodeName(id), after.link[i], after.mem[i]))
		}
		if i != extNode && (after.link[i] != before.link[i] || after.mem[i] != before.mem[i]) {
			report("accepted:other-link-changed", fmt.Sprintf("%s: link A->%s changed %d->%d (memory %d->%d) although %d was not referenced", input, in.nodeName(id), before.link[i], after.link[i], before.mem[i], after.mem[i], i))
		}
		if id == A && (after.link[i] != 0 || after.mem[i] != 0) {
			report("accepted:link-to-self", fmt.Sprintf("%s: link A->A = %d (memory %d)", input, after.link[i], after.mem[i]))
		}
	}
	if after.memExtra != before.memExtra {
		report("accepted:link-to-unknown-node", fmt.Sprintf("%s: RoundLinks has entries for non-nodes: %s", input, after.memExtra))
	}
	if added, changed, removed := c20Delta2(before.links, after.links); added+changed > 1 || removed != 0 {
		report("accepted:link-frame", fmt.Sprintf("%s: LINK keys added=%d changed=%d removed=%d, expected at most one write", input, added, changed, removed))
	}
	if extNode >= 0 {
		if after.link[extNode] > before.link[extNode] {
			c.Outcome("link:newer")
		} else if after.link[extNode] == before.link[extNode] {
			c.Outcome("link:equal")
		}
	}
	if terminal {
		// the statement is already violated in the successor state (the link
		// names a round that is still open and moves with it); what follows
		// from there is a consequence and is not explored
		c.Outcome(what + ":accept-head-record")
		return c20Broken
	}
	return c20Moved
}

// c20Slug keeps the leading words of a panic message (up to the first token
// holding a digit, i.e. a hash or a number).
func c20Slug(msg string) string {
	var out []string
	for _, w := range strings.Fields(msg) {
		if strings.ContainsAny(w, "0123456789") || len(out) >= 6 {
			break
		}
		out = append(out, w)
	}
	if len(out) == 0 {
		return "value"
	}
	return strings.Join(out, "-")
}

func c20Delta2(a, b map[string]string) (added, changed, removed int) {
	for k, v := range b {
		if w, ok := a[k]; !ok {
			added++
		} else if w != v {
			changed++
		}
	}
	for k := range a {
		if _, ok := b[k]; !ok {
			removed++
		}
	}
	return
}

func c20Diff(a, b *c20Obs) string {
	var out []string
	for _, pair := range [][2]map[string]string{{a.rounds, b.rounds}, {a.links, b.links}} {
		for k, v := range pair[1] {
			if w, ok := pair[0][k]; !ok {
				out = append(out, "+"+k[:min(len(k), 24)])
			} else if w != v {
				out = append(out, "~"+k[:min(len(k), 24)])
			}
		}
		for k := range pair[0] {
			if _, ok := pair[1][k]; !ok {
				out = append(out, "-"+k[:min(len(k), 24)])
			}
		}
	}
	sort.Strings(out)
	return strings.Join(out, " ")
}

func c20HistNames(h []int) []string {
	out := make([]string, len(h))
	for i, e := range h {
		out[i] = c20Events[e].name
	}
	return out
}

// c20Replay builds a fresh instance and replays a history without oracles.
func c20Replay(c *verifmc.Check, h []int) *c20Inst {
	in, err := c20New()
	if err != nil {
		c.Require(false, "fixture: %v", err)
		return nil
	}
	for _, e := range h {
		if r := in.apply(c, e, false, nil); r != c20Moved {
			c.Require(false, "replay divergence: %s gave %d while replaying %v", c20Events[e].name, r, c20HistNames(h))
			in.Close()
			return nil
		}
	}
	return in
}

func c20Scout(c *verifmc.Check) bool {
	in, err := c20New()
	if err != nil {
		c.Require(false, "fixture: %v", err)
		return false
	}
	defer in.Close()
	// B: close r2 ; C: close r1
	if err := in.closeRound(c20B); err != nil {
		c.Require(false, "scout: %v", err)
		return false
	}
	if err := in.closeRound(c20C); err != nil {
		c.Require(false, "scout: %v", err)
		return false
	}
	for n := range uint64(3) {
		f, err := loadFinalRoundForNode(in.m.Store, in.id[c20B], n)
		if err != nil {
			c.Require(false, "scout: %v", err)
			return false
		}
		c20Tab.b[n] = f.Hash
	}
	for n := range uint64(2) {
		f, err := loadFinalRoundForNode(in.m.Store, in.id[c20C], n)
		if err != nil {
			c.Require(false, "scout: %v", err)
			return false
		}
		c20Tab.c[n] = f.Hash
	}
	ok := c20Tab.b[0] == in.ext0[c20A]
	c.Require(ok, "genesis external of A is not B.r0")
	return ok
}

func TestMC_C20(t *testing.T) {
	c := verifmc.Start(t, "C20", "model_checking")
	defer c.Finish()
	c20BuildEvents()
	depth := verifmc.Pick(c, 6, 14)
	if v := os.Getenv("C20_DEPTH"); v != "" {
		fmt.Sscan(v, &depth)
	}
	c.SetRule(fmt.Sprintf("BFS to depth %d over ALL sequences of %d events on a real 7-chain node (newMCNode): the real startNewRoundAndPersist(finalized in {f,t}) and updateEmptyHeadRoundAndPersist(strict in {f,t}) on chain A with references self {correct,stale (an older final hash of A),garbage} x external {B.r0,B.r1,B.r2,C.r1,A's own final round,unknown hash,B's head record key (node id)}, + round starts (both paths, self correct, external {B.r1,C.r1}) stamped 1 ns before / at / 1 ns after the END of the round being closed instead of at the next round's first snapshot, interleaved with A.snap (real AddSnapshot of a real deposit snapshot, <=2 per round), B.adv and C.adv (snapshot into an empty head round / close a non-empty one: newer external rounds become final, then strictly referencable); fixture prefix B.r0,B.r1 final + B head non-empty, C.r0 final + C head non-empty; canonical state = A(head number, snapshots, stored external, final number) + 7 stored links + 7 in-memory links + B,C(head number, snapshots); refused events are verified self-loops and further events are tried on the same instance, every state-changing event is computed on a fresh instance by replaying the history", depth, len(c20Events)))
	c.Assume("Badger transactions are atomic",
		"snapshots are added at the level the kernel adds them after verifyFinalization (lock+write transaction, ValidateSnapshot, AddSnapshot/TopoWrite); CoSi signatures are not verified by any function under test (Mask=1 placeholder)",
		"timestamps are a pure function of (chain, round, index): round n of A is stamped later than the start of B.rn/C.rn and earlier than B.r(n+1)/C.r(n+1); real time (2026) is later than every fixture timestamp, so the 'too future' clock test never fires",
		"cache/final arguments are the ones the kernel passes (StateCopy; the live cache round on the finalized start path)",
		"a refused transition that left ROUND/LINK keys and the ChainState identical leaves no other residue relevant to later transitions (it is a self-loop)")
	if !c20Scout(c) {
		return
	}

	type succ struct {
		e   int
		key string
	}
	type node struct{ hist []int }
	root, err := c20New()
	if err != nil {
		c.Require(false, "fixture: %v", err)
		return
	}
	k0 := root.key()
	root.Close()
	seen := map[string]struct{}{k0: {}}
	frontier := []node{{}}
	c.AddStates(1)
	c.Distinct(k0)
	var states, trans int64 = 1, 0
	var instances int64
	var imu sync.Mutex
	done := 0
	for d := 0; d < depth && len(frontier) > 0; d++ {
		results := make([][]succ, len(frontier))
		complete := c.ParallelN(len(frontier), fmt.Sprintf("bfs depth %d", d+1), func(w, i int) {
			h := frontier[i].hist
			var in *c20Inst
			n := 0
			defer func() {
				if in != nil {
					in.Close()
				}
				imu.Lock()
				instances += int64(n)
				imu.Unlock()
			}()
			for e := range c20Events {
				if in == nil {
					if in = c20Replay(c, h); in == nil {
						return
					}
					n++
				}
				nh := append(append(make([]int, 0, len(h)+1), h...), e)
				r := in.apply(c, e, true, func(key, desc string) {
					c.Violation(key, desc, map[string]any{"history": c20HistNames(nh)})
				})
				if r == c20Disabled {
					continue
				}
				c.AddTrans(1)
				c.AddTraces(1)
				c.Eval(1)
				switch r {
				case c20Moved:
					results[i] = append(results[i], succ{e, in.key()})
					in.Close()
					in = nil
				case c20Broken:
					in.Close()
					in = nil
				}
			}
		})
		var next []node
		for i := range frontier {
			for _, s := range results[i] {
				trans++
				if _, ok := seen[s.key]; ok {
					continue
				}
				seen[s.key] = struct{}{}
				nh := append(append(make([]int, 0, len(frontier[i].hist)+1), frontier[i].hist...), s.e)
				next = append(next, node{hist: nh})
				states++
				c.AddStates(1)
				c.Distinct(s.key)
				if len(nh) >= 3 {
					c.Sample(map[string]any{"history": c20HistNames(nh), "state": s.key})
				}
			}
		}
		if !complete {
			break
		}
		done = d + 1
		frontier = next
	}
	c.Set("bfs_depth_completed", done)
	c.Set("bfs_frontier_left", len(frontier))
	c.Set("events", len(c20Events))
	c.Set("state_changing_transitions", trans)
	c.Set("fixture_instances_built", instances)
	var ru syscall.Rusage
	if syscall.Getrusage(syscall.RUSAGE_SELF, &ru) == nil {
		c.Set("cpu_s", float64(ru.Utime.Sec+ru.Stime.Sec)+float64(ru.Utime.Usec+ru.Stime.Usec)/1e6)
	}
	if c.Violations() > 0 {
		return
	}
	c.Require(done == depth || c.Expired("bfs"), "BFS stopped at depth %d of %d", done, depth)
	c.Require(states > 100 && trans > 300, "vacuous C20 exploration: %d states %d state-changing transitions", states, trans)
	for _, o := range []string{
		"start:accept(false)", "start:accept(true)", "start:accept-dummy(true)", "update:accept(false)", "update:accept(true)",
		"link:newer", "link:equal",
		"start:reject:cache-empty", "start:reject:self-mismatch", "start(false):reject:external-unknown", "start:reject:external-self", "start:reject:back-link",
		"update:reject:head-not-empty", "update:reject:self-mismatch", "update:reject:external-unknown", "update:reject:external-self", "update:reject:back-link",
		"update(true):reject:strict-later-than-round", "update(true):reject:strict-no-extra-final", "start(false):reject:strict-no-extra-final",
		"start:accept(false):ts=final.End-1", "start:accept(false):ts=final.End", "start:accept(false):ts=final.End+1",
		"start:accept(true):ts=final.End-1", "start:accept(true):ts=final.End", "start:accept(true):ts=final.End+1",
	} {
		c.Require(c.OutcomeCount(o) > 0, "outcome class %q never reached", o)
	}
}
