//go:build verif

package kernel

import (
	"bytes"
	"fmt"
	"runtime"
	"strconv"
	"strings"
	"sync"
	"sync/atomic"
	"time"

	"github.com/MixinNetwork/mixin/common"
	"github.com/MixinNetwork/mixin/crypto"
	"github.com/MixinNetwork/mixin/verifmc"
	"github.com/dgraph-io/badger/v4"
)

// C21, history part.
//
// The base part (mc_c21_test.go) cuts the finalization of ONE consensus-class
// snapshot whose predecessor record is the genesis one. Here the consensus
// operation B whose finalization is cut has a *history*:
//
//	prefix (sequential, under the crash cut as well; absent in the scenarios
//	"recorded=genesis", which are the base part's workloads in memory):
//	  A   a mint, finalized and recorded (snapshot commit + consensus record)
//	  R?  a snapshot of ANOTHER chain that includes transaction A again
//	      (re-inclusion of the recorded consensus transaction: a storage no-op,
//	      accepted by validateConsensusTransactionReferences "ltx == tx")
//	concurrent (every interleaving at commit granularity up to the preemption bound):
//	  thread A: consensus operation B (mint through the post-validation tail, or
//	            node pledge through the complete cosiHandleFinalization)
//	  thread B: ordinary snapshots of another chain whose clock is BEHIND, EQUAL
//	            to or AHEAD of the recorded consensus snapshot A's timestamp
//
// For every crash cut k = 1..commits+1 of the whole history (commit k and all
// later ones fail) the in-memory node is abandoned and a new node is built with
// the real SetupNode over what was committed. Oracle: the consensus record
// after restart equals the last finalized consensus snapshot in topological
// order (re-inclusions of the already recorded transaction do not move it).
//
// The stores of this part are in-memory Badger databases that survive the
// "crash" as they are (commit = durable unit, same assumption as the base
// part); the crash seam is keyed by goroutine instead of by directory.

type c21Scenario struct {
	BKind string   // "mint" | "pledge"
	NoA   bool     // no prefix: the recorded consensus snapshot is the genesis one (the base part's workload)
	Reinc bool     // R present
	Skews []string // per ordinary snapshot of thread B: "older" | "equal" | "newer" (relative to A's timestamp)
}

func (sc c21Scenario) name() string {
	if sc.NoA {
		return fmt.Sprintf("hist:%s:recorded=genesis:skew=%s", sc.BKind, strings.Join(sc.Skews, "+"))
	}
	return fmt.Sprintf("hist:%s:reinc=%v:skew=%s", sc.BKind, sc.Reinc, strings.Join(sc.Skews, "+"))
}

// timestamps, as offsets from mcCrashBase. A, R and B may share a chain round
// (A and B are proposed by the same elected chain): all inside one 3 s window.
const (
	c21TsA     = 10 * time.Second
	c21TsR     = 10*time.Second + 500*time.Millisecond
	c21TsB     = 11 * time.Second
	c21TsOlder = 9 * time.Second
	c21TsEqual = c21TsA
	c21TsNewer = 11*time.Second + 500*time.Millisecond
)

func c21SkewOffset(skew string) time.Duration {
	switch skew {
	case "older":
		return c21TsOlder
	case "equal":
		return c21TsEqual
	case "newer":
		return c21TsNewer
	}
	panic(skew)
}

// ---- crash seam for in-memory stores: keyed by goroutine ------------------------

type c21MemCtl struct {
	count   atomic.Int64
	cut     int64 // commits with index >= cut fail (0 = never)
	crashed atomic.Bool
}

type c21GoCtl struct {
	ctl    *c21MemCtl
	paused bool // only touched by the owning goroutine
}

var c21GoCtls sync.Map // goroutine id -> *c21GoCtl
var c21HookOnce sync.Once

func c21Goid() int64 {
	var buf [64]byte
	n := runtime.Stack(buf[:], false)
	b := buf[:n]
	b = b[len("goroutine "):]
	i := bytes.IndexByte(b, ' ')
	id, _ := strconv.ParseInt(string(b[:i]), 10, 64)
	return id
}

func c21Register(ctl *c21MemCtl) *c21GoCtl {
	g := &c21GoCtl{ctl: ctl}
	c21GoCtls.Store(c21Goid(), g)
	return g
}

func c21Unregister() { c21GoCtls.Delete(c21Goid()) }

// c21InstallMemHook wraps the directory-keyed crash hook of crash_test.go:
// commits of an in-memory database (Dir == "") made by a registered goroutine
// are scheduling points, are numbered, and fail from the cut on.
func c21InstallMemHook() {
	c21HookOnce.Do(func() {
		mcInstallCrashHook()
		prev := badger.VerifHook
		badger.VerifHook = func(kind, dir string, writes int) error {
			if dir != "" || kind != "commit" {
				return prev(kind, dir, writes)
			}
			v, ok := c21GoCtls.Load(c21Goid())
			if !ok {
				return nil
			}
			g := v.(*c21GoCtl)
			if g.paused {
				return nil
			}
			if g.ctl.crashed.Load() {
				// after the crash nothing becomes durable any more and the in-memory
				// node is abandoned: the order of the failing commits cannot matter,
				// so they are no scheduling points (prunes equivalent schedules)
				g.ctl.count.Add(1)
				return errMCCrash
			}
			verifmc.Point("commit")
			n := g.ctl.count.Add(1)
			if g.ctl.cut > 0 && n >= g.ctl.cut {
				g.ctl.crashed.Store(true)
				return errMCCrash
			}
			return nil
		}
	})
}

// ---- deliveries -------------------------------------------------------------------

type c21Del struct {
	mcDelivery
	// Reinclude: the single transaction is already finalized by a snapshot of
	// another chain. Like validateSnapshotTransaction does for a transaction it
	// finds in the store, it is neither validated, locked nor written again; the
	// snapshot goes through the tail AddSnapshot + reloadConsensusState.
	Reinclude bool
}

// c21Deliver is mcDeliver for the goroutine-keyed seam: the cache-DB write that
// makes the payload available is not a crash point (as in the base part, where
// only the snapshot DB is cut), a silently dropped delivery is a harness error,
// and a re-inclusion does not persist the transaction again.
func c21Deliver(m *mcNode, d *c21Del, g *c21GoCtl, names *c21Names) *common.Snapshot {
	ts := m.Net.Epoch + uint64(mcCrashBase+d.TsOffset)
	var chainId crypto.Hash
	if d.Chain >= 0 {
		chainId = m.Net.NodeIds[d.Chain]
	} else {
		chainId = m.Node.electSnapshotNode(d.Elect, ts)
	}
	chain := m.chainOf(chainId)
	txs := d.Build(m, ts)
	if len(txs) != 1 {
		panic("harness: c21 deliveries are singletons")
	}
	tx := txs[0]
	if d.Reinclude {
		old, snap, err := m.Store.ReadTransaction(tx.PayloadHash())
		if err != nil || old == nil || snap == "" {
			panic(fmt.Sprintf("harness: %s: transaction %s is not finalized yet (%v)", d.Name, tx.PayloadHash(), err))
		}
		sh, _ := crypto.HashFromString(snap)
		sn, err := m.Store.ReadSnapshot(sh)
		if err != nil || sn == nil || sn.NodeId == chainId {
			panic(fmt.Sprintf("harness: %s: transaction %s must be finalized by another chain", d.Name, tx.PayloadHash()))
		}
	} else {
		was := g.paused
		g.paused = true
		err := m.Store.CacheStoreTransaction(tx)
		g.paused = was
		if err != nil {
			panic(err)
		}
	}
	cache, _ := chain.StateCopy()
	s := &common.Snapshot{Version: common.SnapshotVersionCommonEncoding, NodeId: chainId, Timestamp: ts}
	s.RoundNumber = cache.Number
	s.References = cache.References.Copy()
	s.AddTransaction(tx.PayloadHash())
	s.Hash = s.PayloadHash()
	ids, publics := chain.ConsensusKeys(s.RoundNumber, ts)
	idx := mcSignerSet(ids, chainId, m.Node.ConsensusThreshold(ts, true))
	s.Signature = mcDetCosiSign(m.Net, publics, idx, s.Hash)
	d.Hash = s.Hash
	names.put(s.Hash, d.Name)
	if d.TailOnly || d.Reinclude {
		signers := make([]crypto.Hash, len(idx))
		for i, k := range idx {
			signers[i] = ids[k]
		}
		if !d.Reinclude {
			if err := m.Node.lockAndPersistTransaction(tx, true); err != nil {
				panic(fmt.Errorf("lockAndPersistTransaction(%s): %w", d.Name, err))
			}
		}
		cache, final := chain.StateCopy()
		if err := cache.ValidateSnapshot(s); err != nil {
			panic(fmt.Errorf("harness: %s: ValidateSnapshot: %w", d.Name, err))
		}
		if err := chain.AddSnapshot(final, cache, s, signers); err != nil {
			panic(err)
		}
		if err := m.Node.reloadConsensusState(s, tx); err != nil {
			panic(err)
		}
		return s
	}
	err := chain.cosiHandleFinalization(&CosiAction{Action: CosiActionFinalization, PeerId: m.Net.NodeIds[(d.Chain+8)%7], Snapshot: s, SnapshotHash: s.Hash})
	if err != nil {
		panic(fmt.Errorf("cosiHandleFinalization(%s): %w", d.Name, err))
	}
	if !g.ctl.crashed.Load() {
		sn, err := m.Store.ReadSnapshot(s.Hash)
		if err != nil || sn == nil {
			panic(fmt.Sprintf("harness: %s: the finalization handler dropped the snapshot silently (%v)", d.Name, err))
		}
	}
	return s
}

type c21Names struct {
	mu sync.Mutex
	m  map[crypto.Hash]string
}

func (n *c21Names) put(h crypto.Hash, name string) {
	n.mu.Lock()
	n.m[h] = name
	n.mu.Unlock()
}

func (n *c21Names) get(h crypto.Hash) string {
	n.mu.Lock()
	defer n.mu.Unlock()
	if s, ok := n.m[h]; ok {
		return s
	}
	return "?" + h.String()[:8]
}

func c21ConsensusClass(tx *common.VersionedTransaction) bool {
	switch tx.TransactionType() {
	case common.TransactionTypeMint,
		common.TransactionTypeNodePledge,
		common.TransactionTypeNodeCancel,
		common.TransactionTypeNodeAccept,
		common.TransactionTypeNodeRemove,
		common.TransactionTypeCustodianUpdateNodes,
		common.TransactionTypeCustodianSlashNodes:
		return true
	}
	return false
}

// ---- shared bookkeeping of the history part --------------------------------------

type c21HistInfo struct {
	mu sync.Mutex
	// probe results per scenario
	total  map[string]int64
	prefix map[string]int64
	// harness failures (exit 2, never a violation)
	harness []string
	// vacuity guards: situations reached before the restart
	reached map[string]int64
}

func (h *c21HistInfo) fail(format string, a ...any) {
	h.mu.Lock()
	if len(h.harness) < 8 {
		h.harness = append(h.harness, fmt.Sprintf(format, a...))
	}
	h.mu.Unlock()
}

func (h *c21HistInfo) reach(k string) {
	h.mu.Lock()
	h.reached[k]++
	h.mu.Unlock()
}

// c21HistBody executes one (scenario, cut, schedule).
func c21HistBody(s *verifmc.Sched, sc c21Scenario, cut int64, info *c21HistInfo, report func(key, desc string)) string {
	c21InstallMemHook()
	m, err := newMCNode(mcNet7, 0, "")
	if err != nil {
		panic(err)
	}
	storeOpen, abandoned := true, false
	defer func() {
		if storeOpen && abandoned {
			_ = m.Store.Close()
		} else if storeOpen {
			m.Close()
		}
	}()
	ctl := &c21MemCtl{}
	g := c21Register(ctl)
	defer c21Unregister()
	names := &c21Names{m: map[crypto.Hash]string{}}

	// ---- setup, not subject to the cut: the pledge fund; chain choice ----
	g.paused = true
	c21Deliver(m, &c21Del{mcDelivery: mcDelivery{Name: "fund", Chain: 2, TsOffset: 0, Build: mcCrDepositXIN("c21-pledge-fund", "13439")}}, g, names)
	tsB := m.Net.Epoch + uint64(mcCrashBase+c21TsB)
	busy := map[crypto.Hash]bool{
		m.Net.NodeIds[0]: true, // the node itself
		m.Net.NodeIds[2]: true, // fund
		m.Node.electSnapshotNode(common.TransactionTypeMint, tsB):       true,
		m.Node.electSnapshotNode(common.TransactionTypeNodePledge, tsB): true,
	}
	var free []int
	for i := range m.Net.NodeIds {
		if !busy[m.Net.NodeIds[i]] {
			free = append(free, i)
		}
	}
	if len(free) < 2 {
		panic("harness: no two free chains")
	}
	xChain, yChain := free[0], free[1]
	marker0, err := m.Store.ReadLastConsensusSnapshot()
	if err != nil || marker0 == nil {
		panic(fmt.Sprint("harness: no consensus record after genesis ", err))
	}
	head0, _ := m.Store.LastSnapshot()
	baseTopo := head0.TopologicalOrder
	names.put(marker0.PayloadHash(), "G")

	dA := &c21Del{mcDelivery: mcDelivery{Name: "A", Chain: -1, Elect: common.TransactionTypeMint, TailOnly: true, TsOffset: c21TsA, Build: mcCrMint("c21-A")}}
	var txA *common.VersionedTransaction
	dR := &c21Del{Reinclude: true, mcDelivery: mcDelivery{Name: "R", Chain: xChain, TsOffset: c21TsR, Build: func(m *mcNode, ts uint64) []*common.VersionedTransaction {
		return []*common.VersionedTransaction{txA}
	}}}
	dB := &c21Del{mcDelivery: mcDelivery{Name: "B", Chain: -1, Elect: common.TransactionTypeMint, TailOnly: true, TsOffset: c21TsB, Build: mcCrMint("c21-B")}}
	if sc.BKind == "pledge" {
		dB = &c21Del{mcDelivery: mcDelivery{Name: "B", Chain: -1, Elect: common.TransactionTypeNodePledge, TsOffset: c21TsB, Build: mcCrPledge("c21-pledge-fund", 0)}}
	}
	var ordinary []*c21Del
	for i, skew := range sc.Skews {
		ordinary = append(ordinary, &c21Del{mcDelivery: mcDelivery{Name: fmt.Sprintf("O%d%s", i, skew[:1]), Chain: yChain, TsOffset: c21SkewOffset(skew), Build: mcCrDepositBTC(fmt.Sprint("c21-h", i), "1")}})
	}

	// ---- prefix, sequential, under the cut ----
	ctl.cut = cut
	g.paused = false
	guarded := func(who string, fn func()) {
		defer func() {
			if r := recover(); r != nil && !ctl.crashed.Load() {
				info.fail("%s cut=%d: %s panicked without a crash: %v @ %s", sc.name(), cut, who, r, verifmc.PanicSite())
			}
		}()
		fn()
	}
	guarded("prefix", func() {
		// A's builder result is kept: R names the very same transaction
		build := dA.Build
		dA.Build = func(m *mcNode, ts uint64) []*common.VersionedTransaction {
			txs := build(m, ts)
			txA = txs[0]
			return txs
		}
		if sc.NoA {
			return
		}
		c21Deliver(m, dA, g, names)
		if sc.Reinc {
			c21Deliver(m, dR, g, names)
		}
	})
	prefixCommits := ctl.count.Load()

	// ---- concurrent part ----
	s.LazyLocks = true // commits are the choice points
	if !ctl.crashed.Load() {
		s.Go("A", func() {
			tg := c21Register(ctl)
			defer c21Unregister()
			guarded("thread A", func() { c21Deliver(m, dB, tg, names) })
		})
		s.Go("B", func() {
			tg := c21Register(ctl)
			defer c21Unregister()
			guarded("thread B", func() {
				for _, d := range ordinary {
					c21Deliver(m, d, tg, names)
				}
			})
		})
	}
	s.RunAll()
	g.paused = true
	if s.Deadlock {
		report("harness:deadlock", strings.Join(s.Trace, " "))
		return "deadlock"
	}
	if s.Hung != "" || s.Diverged != "" {
		return "aborted"
	}
	commits := ctl.count.Load()
	durable := commits
	if cut > 0 && durable > cut-1 {
		durable = cut - 1
	}

	// ---- what is durable, and the reference record ----
	st := m.Store
	snaps, txs, err := st.ReadSnapshotWithTransactionsSinceTopology(baseTopo+1, 500)
	if err != nil {
		panic(err)
	}
	want, wantTx := marker0.PayloadHash(), marker0.Transactions[0]
	var topo []string
	var head *common.SnapshotWithTopologicalOrder
	for i, sn := range snaps {
		topo = append(topo, names.get(sn.PayloadHash()))
		head = sn
		if len(txs[i]) != 1 || !c21ConsensusClass(txs[i][0]) {
			continue
		}
		if h := txs[i][0].PayloadHash(); h != wantTx {
			want, wantTx = sn.PayloadHash(), h
		}
	}
	pre, err := st.ReadLastConsensusSnapshot()
	if err != nil || pre == nil {
		panic(fmt.Sprint("harness: consensus record unreadable before restart ", err))
	}
	// situations the history part exists for (vacuity guards)
	if pre.PayloadHash() != want && head != nil {
		hn := names.get(head.PayloadHash())
		if strings.HasPrefix(hn, "O") {
			info.reach("unrecorded-then-ordinary")
			switch tsA := pre.Timestamp; {
			case head.Timestamp < tsA:
				info.reach("unrecorded-then-ordinary:head-older-than-recorded")
			case head.Timestamp == tsA:
				info.reach("unrecorded-then-ordinary:head-equal-to-recorded")
			default:
				info.reach("unrecorded-then-ordinary:head-newer-than-recorded")
			}
			if len(topo) > 1 && topo[1] == "R" && names.get(pre.PayloadHash()) == "A" {
				info.reach("unrecorded-then-ordinary:after-reinclusion-of-recorded")
			}
		} else {
			info.reach("unrecorded-is-head")
		}
	}
	reincDurable := false
	for _, n := range topo {
		reincDurable = reincDurable || n == "R"
	}
	if reincDurable && names.get(pre.PayloadHash()) == "A" {
		info.reach("reinclusion-durable-record-unmoved")
	}

	// ---- restart: abandon the node, real SetupNode over what was committed ----
	m.Abandon()
	abandoned = true
	var m2 *mcNode
	var rerr error
	if pp, site := verifmc.CatchSite(func() { m2, rerr = newMCNodeOnStore(mcNet7, 0, st) }); pp != nil {
		report(sc.name()+":restart-panicked:"+site, fmt.Sprintf("SetupNode after crash at commit %d panicked: %v; durable topology %v; schedule %s", cut, pp, topo, strings.Join(s.Trace, " ")))
		return "restart-panicked"
	}
	storeOpen = false // closed by Close below, or by newMCNodeOnStore on error
	if rerr != nil {
		report(sc.name()+":restart-failed", fmt.Sprintf("SetupNode after crash at commit %d failed: %v; durable topology %v; schedule %s", cut, rerr, topo, strings.Join(s.Trace, " ")))
		return "restart-failed"
	}
	defer m2.Close()
	post, err := st.ReadLastConsensusSnapshot()
	if err != nil || post == nil {
		report("restart-read-error", fmt.Sprint("ReadLastConsensusSnapshot: ", post, err))
		return "read-error"
	}
	out := fmt.Sprintf("prefix=%d commits=%d topo=%s before=%s after=%s", prefixCommits, durable, strings.Join(topo, ","), names.get(pre.PayloadHash()), names.get(post.PayloadHash()))
	if post.PayloadHash() != want {
		hn := "none"
		if head != nil {
			hn = names.get(head.PayloadHash())
			if strings.HasPrefix(hn, "O") {
				switch tsA := pre.Timestamp; {
				case head.Timestamp < tsA:
					hn = "ordinary-older-than-recorded"
				case head.Timestamp == tsA:
					hn = "ordinary-equal-to-recorded"
				default:
					hn = "ordinary-newer-than-recorded"
				}
			}
		}
		key := fmt.Sprintf("hist:%s:marker-lost:reinclusion=%v:last-topology-entry=%s", sc.BKind, reincDurable, hn)
		report(key, fmt.Sprintf("durable topology after the genesis is %v (A = recorded mint, R = another chain's snapshot including A's transaction again, B = %s, O* = ordinary snapshots of another chain, suffix o/e/n = timestamp older/equal/newer than A's); the last finalized consensus snapshot in topological order is %s (%s) but after restart the last recorded consensus operation is %s (%s), before the restart it was %s; crash before commit %d; schedule %s",
			topo, sc.BKind, names.get(want), want, names.get(post.PayloadHash()), post.PayloadHash(), names.get(pre.PayloadHash()), cut, strings.Join(s.Trace, " ")))
	}
	// in-memory side: the mint batch counter follows the stored distribution
	if lm := m2.Node.lastMintDistribution().Batch; m2.Node.LastMint != lm {
		report(fmt.Sprintf("hist:%s:last-mint-stale", sc.BKind), fmt.Sprintf("after restart node.LastMint=%d but the stored distribution is batch %d; durable topology %v; crash before commit %d", m2.Node.LastMint, lm, topo, cut))
	}
	return out
}

// c21Scenarios is the bounded alphabet of the history part.
func c21Scenarios(thorough bool) []c21Scenario {
	var out []c21Scenario
	classes := []string{"older", "equal", "newer"}
	var skews [][]string
	for _, a := range classes {
		skews = append(skews, []string{a})
	}
	if thorough {
		for _, a := range classes {
			for _, b := range classes {
				if a != b { // one chain round: distinct timestamps
					skews = append(skews, []string{a, b})
				}
			}
		}
	}
	for _, kind := range []string{"mint", "pledge"} {
		// the base part's workload (recorded = genesis; every other timestamp is newer)
		out = append(out, c21Scenario{BKind: kind, NoA: true, Skews: []string{"newer"}})
		if thorough {
			out = append(out, c21Scenario{BKind: kind, NoA: true, Skews: []string{"older", "newer"}})
		}
		for _, reinc := range []bool{false, true} {
			for _, sk := range skews {
				out = append(out, c21Scenario{BKind: kind, Reinc: reinc, Skews: sk})
			}
		}
	}
	return out
}
