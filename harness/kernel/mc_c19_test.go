//go:build verif

package kernel

import (
	"fmt"
	"slices"
	"sort"
	"strings"
	"testing"
	"time"

	"github.com/MixinNetwork/mixin/common"
	"github.com/MixinNetwork/mixin/config"
	"github.com/MixinNetwork/mixin/crypto"
	"github.com/MixinNetwork/mixin/verifmc"
)

// C19 — a round never spans a full round gap and holds no duplicates.
// Explicit-state BFS (E2) over ALL sequences of candidate snapshots offered to
// the real cache round, until no candidate is acceptable any more (frontier
// exhausted, no depth cut). Every candidate can be offered in two ways:
//   add           (*CacheRound).validateSnapshot(s, true) on the live round
//                 (finalizeNodeAcceptSnapshot path)
//   validate+add  the cosiHandleFinalization path: Copy(), ValidateSnapshot(s)
//                 on the copy, then AddSnapshot's validateSnapshot(s, true) on
//                 the same copy, which becomes the live round
// The state is the REAL content of CacheRound.Snapshots in slice order (the
// slice is sorted by Gap() only up to its tail, so the order of acceptance is
// part of the state: out-of-order accepts are distinct states). The oracle
// never touches the live slice: Gap()/asFinal() are run on clones.

type c19Cand struct {
	name string
	ts   uint64
	txs  []crypto.Hash
	snap common.Snapshot // template (Hash = real payload hash); copied per offer
}

var (
	c19Cands  []c19Cand
	c19ByHash map[crypto.Hash]int
)

const c19Round = 9

func c19Build(thorough bool) {
	gap := config.SnapshotRoundGap
	day := 24 * uint64(time.Hour)
	D := 19700 * day                          // a day boundary (2023-12-09 00:00:00 UTC)
	M := D + 12*uint64(time.Hour) + 123456789 // a mid-day instant of the day starting at D
	node := crypto.Blake3Hash([]byte("c19-node"))
	type off struct {
		name string
		d    int64
	}
	g := int64(gap)
	offs := []off{{"-gap", -g}, {"-1", -1}, {"", 0}, {"+1", 1}, {"+gap/2", g / 2}, {"+gap-1", g - 1}, {"+gap", g}, {"+gap+1", g + 1}, {"+2gap-1", 2*g - 1}}
	txNames := []string{"a", "b", "c", "d"}
	sets := [][]int{{0}, {1}, {2}, {3}, {0, 1}, {2, 3}}
	if thorough {
		offs = append(offs, off{"+2gap", 2 * g})
		txNames = append(txNames, "e")
		sets = append(sets, []int{4}, []int{0, 4}, []int{0, 1, 2})
	}
	tx := make([]crypto.Hash, len(txNames))
	for i, n := range txNames {
		tx[i] = crypto.Blake3Hash([]byte("c19-tx-" + n))
	}
	c19Cands = nil
	c19ByHash = map[crypto.Hash]int{}
	type basePoint struct {
		name string
		ts   uint64
	}
	bases := []basePoint{{"D", D}, {"M", M}}
	if thorough {
		bases = append(bases, basePoint{"E", D + day}) // the next day boundary
	}
	for _, base := range bases {
		for _, o := range offs {
			for _, set := range sets {
				var names []string
				s := common.Snapshot{Version: common.SnapshotVersionCommonEncoding, NodeId: node, RoundNumber: c19Round, Timestamp: uint64(int64(base.ts) + o.d)}
				for _, i := range set {
					s.AddTransaction(tx[i])
					names = append(names, txNames[i])
				}
				s.Hash = s.PayloadHash()
				cd := c19Cand{name: fmt.Sprintf("%s%s/{%s}", base.name, o.name, strings.Join(names, ",")), ts: s.Timestamp, txs: s.Transactions, snap: s}
				c19ByHash[s.Hash] = len(c19Cands)
				c19Cands = append(c19Cands, cd)
			}
		}
	}
}

type c19State struct {
	round *CacheRound
	w     int // BFS worker index: selects the lock-free counter map
}

// c19Seq: the snapshots in SLICE order (the real state of the live round).
func c19Seq(snaps []*common.Snapshot) []string {
	out := make([]string, len(snaps))
	for i, s := range snaps {
		if k, ok := c19ByHash[s.Hash]; ok && c19Cands[k].ts == s.Timestamp {
			out[i] = c19Cands[k].name
		} else {
			out[i] = fmt.Sprintf("?%s@%d", s.Hash.String()[:8], s.Timestamp)
		}
	}
	return out
}

// c19Names: the snapshots as a (sorted) multiset.
func c19Names(snaps []*common.Snapshot) []string {
	out := c19Seq(snaps)
	sort.Strings(out)
	return out
}

// c19Reasons: why the statement forbids adding cand to members (empty = allowed)
func c19Reasons(members []*common.Snapshot, cand *common.Snapshot) []string {
	gap := config.SnapshotRoundGap
	day := 24 * uint64(time.Hour)
	var r [5]bool
	lo, hi := cand.Timestamp, cand.Timestamp
	for _, m := range members {
		if m.Hash == cand.Hash {
			r[0] = true
		}
		if m.Timestamp == cand.Timestamp {
			r[1] = true
		}
		for _, h := range cand.Transactions {
			if slices.Contains(m.Transactions, h) {
				r[2] = true
			}
		}
		if m.Timestamp/day != cand.Timestamp/day {
			r[3] = true
		}
		lo, hi = min(lo, m.Timestamp), max(hi, m.Timestamp)
	}
	r[4] = hi-lo >= gap
	var out []string
	for i, k := range []string{"dup-hash", "dup-timestamp", "dup-transaction", "other-day", "span>=gap"} {
		if r[i] {
			out = append(out, k)
		}
	}
	return out
}

func c19Clone(round *CacheRound) *CacheRound {
	return &CacheRound{NodeId: round.NodeId, Number: round.Number, Timestamp: round.Timestamp, References: round.References,
		Snapshots: append([]*common.Snapshot{}, round.Snapshots...), index: round.index}
}

// c19Invariant evaluates the statement on the real round content. The live
// slice is only read; Gap() and asFinal() (which sort in place) get clones.
func c19Invariant(round *CacheRound, report func(key, desc string)) {
	gap := config.SnapshotRoundGap
	day := 24 * uint64(time.Hour)
	snaps := round.Snapshots
	lo, hi := ^uint64(0), uint64(0)
	bad := func(key, format string, args ...any) {
		report(key, fmt.Sprintf("round %v (slice order): ", c19Seq(round.Snapshots))+fmt.Sprintf(format, args...))
	}
	for i, a := range snaps {
		lo, hi = min(lo, a.Timestamp), max(hi, a.Timestamp)
		for _, b := range snaps[i+1:] {
			if a.Hash == b.Hash {
				bad("accepted:dup-hash", "holds hash %s twice", a.Hash)
			}
			if a.Timestamp == b.Timestamp {
				bad("accepted:dup-timestamp", "holds two snapshots with timestamp %d", a.Timestamp)
			}
			if a.Timestamp/day != b.Timestamp/day {
				bad("accepted:two-days", "holds snapshots of day %d and day %d", a.Timestamp/day, b.Timestamp/day)
			}
			for _, h := range a.Transactions {
				if slices.Contains(b.Transactions, h) {
					bad("accepted:dup-transaction", "holds transaction %s in two snapshots", h)
				}
			}
		}
	}
	if hi-lo >= gap {
		bad("accepted:span>=gap", "spans %d >= gap %d", hi-lo, gap)
	}
	var gs, ge uint64
	gc := c19Clone(round)
	if p := verifmc.Catch(func() { gs, ge = gc.Gap() }); p != nil {
		bad("closing:Gap-panics", "Gap() panics: %v", p)
	} else if gs != lo || ge != hi {
		bad("closing:Gap-bounds", "Gap() = (%d,%d), member timestamps range %d..%d", gs, ge, lo, hi)
	}
	var f *FinalRound
	fc := c19Clone(round)
	if p := verifmc.Catch(func() { f = fc.asFinal() }); p != nil {
		bad("closing:asFinal-panics", "asFinal() panics: %v", p)
	} else if f == nil || f.Start != lo || f.End != hi || !f.Hash.HasValue() || f.NodeId != round.NodeId || f.Number != round.Number {
		bad("closing:asFinal-bounds", "asFinal() = %+v, member timestamps range %d..%d", f, lo, hi)
	}
	if len(gc.Snapshots) != len(snaps) || len(fc.Snapshots) != len(snaps) {
		bad("closing:changes-round", "Gap()/asFinal() changed the number of snapshots to %d/%d", len(gc.Snapshots), len(fc.Snapshots))
	}
}

func c19ErrClass(err error) string {
	s := err.Error()
	for _, k := range []string{"duplication", "day leap", "gap start", "gap end"} {
		if strings.Contains(s, k) {
			return strings.ReplaceAll(k, " ", "-")
		}
	}
	return "other"
}

var c19Modes = []string{"add", "validate+add"}

func TestMC_C19(t *testing.T) {
	c := verifmc.Start(t, "C19", "model_checking")
	defer c.Finish()
	c19Build(c.Thorough())
	gap := config.SnapshotRoundGap
	c.SetRule(fmt.Sprintf("BFS over ALL sequences of offers of %d candidate snapshots x 2 offer paths {add = validateSnapshot(s,true) on the live round; validate+add = Copy(), ValidateSnapshot(s) on the copy, then validateSnapshot(s,true) on the same copy which becomes the live round (cosiHandleFinalization/AddSnapshot)} to an initially empty cache round, until no candidate is acceptable (frontier exhausted, depth 5 = up to 4 accepted members + a closing pass); candidates = timestamps {X-gap, X-1, X, X+1, X+gap/2, X+gap-1, X+gap, X+gap+1, X+2gap-1} for X = a day boundary D and a mid-day instant M of the same day (thorough: + X+2gap, and X = the next day boundary E too) x transaction sets {a},{b},{c},{d},{a,b},{c,d} (thorough: +{e},{a,e},{a,b,c}), snapshot hash = real PayloadHash, so every accepted timestamp (also the last accepted one) is offered again with other transactions, above and below every accepted timestamp; canonical state = content of CacheRound.Snapshots IN SLICE ORDER (out-of-order acceptance leaves an unsorted tail and is a distinct state); every offer is a transition; invariant, Gap() and asFinal() (on clones) evaluated after every acceptance", len(c19Cands)))
	c.Assume("a plain CacheRound value is enough: validateSnapshot reads only Number and Snapshots (Copy additionally References and index; no node or store)",
		"all candidates carry the round's number and a non-zero hash (the two panics guarding that are a caller contract, not part of the statement)",
		"the converse direction (a candidate the statement allows is refused) is informational: stricter_than_statement")

	local := make([]map[string]int64, c.Workers()+1)
	for i := range local {
		local[i] = map[string]int64{}
	}
	refs := &common.RoundLink{Self: crypto.Blake3Hash([]byte("c19-self")), External: crypto.Blake3Hash([]byte("c19-external"))}

	b := &verifmc.BFS[*c19State]{
		C: c, NumEvents: 2 * len(c19Cands), MaxDepth: 10, MaxStates: 600000,
		EventName: func(e int) string { return c19Cands[e/2].name + ":" + c19Modes[e%2] },
		New: func(w int) *c19State {
			return &c19State{w: w, round: &CacheRound{NodeId: c19Cands[0].snap.NodeId, Number: c19Round, References: refs, index: newRoundIndexCache()}}
		},
		Close: func(*c19State) {},
		Key:   func(s *c19State) string { return strings.Join(c19Seq(s.round.Snapshots), " ") },
		Apply: func(s *c19State, e int, replaying bool, report func(key, desc string)) bool {
			ci, mode := e/2, e%2
			snap := c19Cands[ci].snap
			cand := &snap
			name := c19Cands[ci].name
			prev := append([]*common.Snapshot{}, s.round.Snapshots...)
			count := func(k string) {
				if !replaying {
					local[s.w][k]++
				}
			}
			var err error
			switch mode {
			case 0:
				if p := verifmc.Catch(func() { err = s.round.validateSnapshot(cand, true) }); p != nil {
					report("validate-panics", fmt.Sprintf("validateSnapshot(%s, true) panics on round %v: %v", name, c19Seq(prev), p))
					return true
				}
			case 1:
				cp := s.round.Copy()
				var v error
				if p := verifmc.Catch(func() { v = cp.ValidateSnapshot(cand) }); p != nil {
					report("validate-panics", fmt.Sprintf("ValidateSnapshot(%s) panics on round %v: %v", name, c19Seq(prev), p))
					return true
				}
				if !slices.Equal(c19Names(cp.Snapshots), c19Names(prev)) {
					report("validate-only-changes-round", fmt.Sprintf("ValidateSnapshot(%s) (add=false) changed the round from %v to %v", name, c19Seq(prev), c19Seq(cp.Snapshots)))
				}
				if !replaying {
					// the verdict of the validation and of the adding validation on an identical copy
					probe := s.round.Copy()
					var pe error
					pp := verifmc.Catch(func() { pe = probe.validateSnapshot(cand, true) })
					switch {
					case pp != nil:
					case v == nil && pe != nil:
						report("verdicts-differ:validate-ok-add-refuses", fmt.Sprintf("on round %v (slice order) ValidateSnapshot(%s) passes but validateSnapshot(%s, true) on an identical copy returns %q", c19Seq(prev), name, name, pe))
					case v != nil && pe == nil:
						c.Stricter("ValidateSnapshot refuses what validateSnapshot(add=true) accepts on an identical copy")
					}
				}
				if v != nil {
					err = v
					break
				}
				var ae error
				if p := verifmc.Catch(func() { ae = cp.validateSnapshot(cand, true) }); p != nil {
					report("validate-panics", fmt.Sprintf("validateSnapshot(%s, true) panics after ValidateSnapshot passed on round %v: %v", name, c19Seq(prev), p))
					return true
				}
				if ae != nil {
					report("validated-but-AddSnapshot-panics", fmt.Sprintf("on round %v (slice order) ValidateSnapshot(%s) passes, then AddSnapshot's validateSnapshot(%s, true) on the same copy returns %q: AddSnapshot panics after TopoWrite", c19Seq(prev), name, name, ae))
					count("validated-but-add-refused")
					return true
				}
				s.round = cp
			}
			if err != nil {
				if !slices.Equal(c19Names(prev), c19Names(s.round.Snapshots)) {
					report("refused-but-changed", fmt.Sprintf("offer %s:%s returned %q but the round changed from %v to %v", name, c19Modes[mode], err, c19Seq(prev), c19Seq(s.round.Snapshots)))
				}
				if replaying {
					return true
				}
				reasons := c19Reasons(prev, cand)
				count("reject:" + c19ErrClass(err))
				if len(reasons) == 0 {
					c.Stricter("refused (" + c19ErrClass(err) + ") although distinct, same day and within the gap")
					count("refused-although-allowed")
				} else {
					count("refused-for:" + strings.Join(reasons, "+"))
				}
				if n := len(prev); n >= 2 && len(reasons) == 1 && reasons[0] == "dup-timestamp" && prev[n-1].Timestamp == cand.Timestamp {
					ooo := false
					for _, m := range prev[:n-1] {
						ooo = ooo || m.Timestamp > prev[n-1].Timestamp
					}
					if ooo {
						count(fmt.Sprintf("refused:%s:dup-of-out-of-order-tail-timestamp:members=%d", c19Modes[mode], n))
					}
				}
				return true
			}
			want := append(c19Seq(prev), name)
			sort.Strings(want)
			if !slices.Equal(c19Names(s.round.Snapshots), want) {
				report("accepted-but-not-appended", fmt.Sprintf("offer %s:%s succeeded on %v but the round is now %v", name, c19Modes[mode], c19Seq(prev), c19Seq(s.round.Snapshots)))
			}
			if replaying {
				return true
			}
			count("accept")
			count("accept:" + c19Modes[mode])
			count(fmt.Sprintf("accept:members=%d", len(s.round.Snapshots)))
			if len(prev) > 0 {
				lo, hi := cand.Timestamp, cand.Timestamp
				for _, m := range prev {
					lo, hi = min(lo, m.Timestamp), max(hi, m.Timestamp)
				}
				if hi-lo == gap-1 {
					count("accept:span=gap-1")
				}
				if cand.Timestamp < hi {
					count("accept:out-of-order(below-an-accepted-timestamp)")
				}
				if cand.Timestamp == hi {
					count("accept:in-order(above-all-accepted)")
				}
			}
			c19Invariant(s.round, report)
			return true
		},
	}
	states, trans, depth, exhausted := b.Run()
	out := map[string]int64{}
	for _, m := range local {
		for k, v := range m {
			out[k] += v
		}
	}
	for k, v := range out {
		c.Outcome(k) // class; the number of transitions per class is under count:<class>
		c.Set("count:"+k, v)
	}
	c.Set("candidates", int64(len(c19Cands)))
	c.Set("max_depth", depth)
	c.Sample(map[string]any{"history": []string{"D+1/{a}:add", "D+gap/{b}:add", "D/{c}:validate+add"}, "expect": "third offer refused (gap start): span would be exactly the gap, measured against the end moved by the second"})
	c.Sample(map[string]any{"history": []string{"D-1/{a}:add", "D/{b}:add"}, "expect": "second offer refused (day leap) although 1 ns apart"})
	c.Sample(map[string]any{"history": []string{"D+1/{a}:add", "D+gap/2/{b}:add", "D/{c}:add", "D/{d}:validate+add"}, "expect": "D/{c} is accepted out of order and sits at the unsorted tail of the slice; D/{d} repeats the tail timestamp and must be refused (duplication)"})
	if c.Violations() == 0 {
		c.Require(exhausted, "frontier not exhausted at depth %d (%d states)", depth, states)
		c.Require(depth >= 5, "BFS ended at depth %d: 4-member rounds not reached", depth)
	}
	c.Require(states > 1000 && trans > 100000, "vacuous C19 exploration: %d states %d transitions", states, trans)
	for _, o := range []string{"accept", "accept:add", "accept:validate+add", "accept:members=3", "accept:members=4", "accept:span=gap-1",
		"accept:out-of-order(below-an-accepted-timestamp)", "accept:in-order(above-all-accepted)",
		"reject:duplication", "reject:day-leap", "reject:gap-start", "reject:gap-end",
		"refused-for:other-day", "refused-for:span>=gap", "refused-for:dup-transaction", "refused-for:dup-timestamp", "refused-for:dup-hash+dup-timestamp+dup-transaction",
		"refused:add:dup-of-out-of-order-tail-timestamp:members=2", "refused:add:dup-of-out-of-order-tail-timestamp:members=3",
		"refused:validate+add:dup-of-out-of-order-tail-timestamp:members=2", "refused:validate+add:dup-of-out-of-order-tail-timestamp:members=3"} {
		c.Require(out[o] > 0, "outcome class %q never reached", o)
	}
}
