//go:build verif

package kernel

import (
	"fmt"
	"slices"
	"sort"
	"strings"
	"testing"
	"time"

	"github.com/MixinNetwork/mixin/common"
	"github.com/MixinNetwork/mixin/config"
	"github.com/MixinNetwork/mixin/crypto"
	"github.com/MixinNetwork/mixin/verifmc"
)

// C19 — a round never spans a full round gap and holds no duplicates.
// Explicit-state BFS (E2) over ALL sequences of candidate snapshots offered to
// the real (*CacheRound).validateSnapshot(s, true), until no candidate is
// acceptable any more (frontier exhausted, no depth cut). The invariant of
// the statement is evaluated in every reached state on the real
// CacheRound.Snapshots, and Gap()/asFinal() are run in every state.

type c19Cand struct {
	name string
	ts   uint64
	txs  []crypto.Hash
	snap common.Snapshot // template (Hash = real payload hash); copied per offer
}

var (
	c19Cands  []c19Cand
	c19ByHash map[crypto.Hash]int
)

const c19Round = 9

func c19Build(thorough bool) {
	gap := config.SnapshotRoundGap
	day := 24 * uint64(time.Hour)
	D := 19700 * day                          // a day boundary (2023-12-09 00:00:00 UTC)
	M := D + 12*uint64(time.Hour) + 123456789 // a mid-day instant of the day starting at D
	node := crypto.Blake3Hash([]byte("c19-node"))
	type off struct {
		name string
		d    int64
	}
	g := int64(gap)
	offs := []off{{"-gap", -g}, {"-1", -1}, {"", 0}, {"+1", 1}, {"+gap/2", g / 2}, {"+gap-1", g - 1}, {"+gap", g}, {"+gap+1", g + 1}, {"+2gap-1", 2*g - 1}}
	txNames := []string{"a", "b", "c", "d"}
	sets := [][]int{{0}, {1}, {2}, {0, 1}, {2, 3}}
	if thorough {
		offs = append(offs, off{"+2gap", 2 * g})
		txNames = append(txNames, "e")
		sets = append(sets, []int{3}, []int{4}, []int{0, 4}, []int{0, 1, 2})
	}
	tx := make([]crypto.Hash, len(txNames))
	for i, n := range txNames {
		tx[i] = crypto.Blake3Hash([]byte("c19-tx-" + n))
	}
	c19Cands = nil
	c19ByHash = map[crypto.Hash]int{}
	type basePoint struct {
		name string
		ts   uint64
	}
	bases := []basePoint{{"D", D}, {"M", M}}
	if thorough {
		bases = append(bases, basePoint{"E", D + day}) // the next day boundary
	}
	for _, base := range bases {
		for _, o := range offs {
			for _, set := range sets {
				var names []string
				s := common.Snapshot{Version: common.SnapshotVersionCommonEncoding, NodeId: node, RoundNumber: c19Round, Timestamp: uint64(int64(base.ts) + o.d)}
				for _, i := range set {
					s.AddTransaction(tx[i])
					names = append(names, txNames[i])
				}
				s.Hash = s.PayloadHash()
				cd := c19Cand{name: fmt.Sprintf("%s%s/{%s}", base.name, o.name, strings.Join(names, ",")), ts: s.Timestamp, txs: s.Transactions, snap: s}
				c19ByHash[s.Hash] = len(c19Cands)
				c19Cands = append(c19Cands, cd)
			}
		}
	}
}

type c19State struct {
	round *CacheRound
}

func c19Names(snaps []*common.Snapshot) []string {
	out := make([]string, len(snaps))
	for i, s := range snaps {
		if k, ok := c19ByHash[s.Hash]; ok && c19Cands[k].ts == s.Timestamp {
			out[i] = c19Cands[k].name
		} else {
			out[i] = fmt.Sprintf("?%s@%d", s.Hash.String()[:8], s.Timestamp)
		}
	}
	sort.Strings(out)
	return out
}

// c19Reasons: why the statement forbids adding cand to members (empty = allowed)
func c19Reasons(members []*common.Snapshot, cand *common.Snapshot) []string {
	gap := config.SnapshotRoundGap
	day := 24 * uint64(time.Hour)
	r := map[string]bool{}
	lo, hi := cand.Timestamp, cand.Timestamp
	for _, m := range members {
		if m.Hash == cand.Hash {
			r["dup-hash"] = true
		}
		if m.Timestamp == cand.Timestamp {
			r["dup-timestamp"] = true
		}
		if m.Timestamp/day != cand.Timestamp/day {
			r["other-day"] = true
		}
		for _, h := range cand.Transactions {
			if slices.Contains(m.Transactions, h) {
				r["dup-transaction"] = true
			}
		}
		lo, hi = min(lo, m.Timestamp), max(hi, m.Timestamp)
	}
	if hi-lo >= gap {
		r["span>=gap"] = true
	}
	var out []string
	for _, k := range []string{"dup-hash", "dup-timestamp", "dup-transaction", "other-day", "span>=gap"} {
		if r[k] {
			out = append(out, k)
		}
	}
	return out
}

// c19Invariant evaluates the statement on the real round content.
func c19Invariant(round *CacheRound, report func(key, desc string)) {
	gap := config.SnapshotRoundGap
	day := 24 * uint64(time.Hour)
	names := c19Names(round.Snapshots)
	snaps := append([]*common.Snapshot{}, round.Snapshots...)
	lo, hi := ^uint64(0), uint64(0)
	for i, a := range snaps {
		lo, hi = min(lo, a.Timestamp), max(hi, a.Timestamp)
		for _, b := range snaps[i+1:] {
			if a.Hash == b.Hash {
				report("accepted:dup-hash", fmt.Sprintf("round %v holds hash %s twice", names, a.Hash))
			}
			if a.Timestamp == b.Timestamp {
				report("accepted:dup-timestamp", fmt.Sprintf("round %v holds two snapshots with timestamp %d", names, a.Timestamp))
			}
			if a.Timestamp/day != b.Timestamp/day {
				report("accepted:two-days", fmt.Sprintf("round %v holds snapshots of day %d and day %d", names, a.Timestamp/day, b.Timestamp/day))
			}
			for _, h := range a.Transactions {
				if slices.Contains(b.Transactions, h) {
					report("accepted:dup-transaction", fmt.Sprintf("round %v holds transaction %s in two snapshots", names, h))
				}
			}
		}
	}
	if hi-lo >= gap {
		report("accepted:span>=gap", fmt.Sprintf("round %v spans %d >= gap %d", names, hi-lo, gap))
	}
	var gs, ge uint64
	if p := verifmc.Catch(func() { gs, ge = round.Gap() }); p != nil {
		report("closing:Gap-panics", fmt.Sprintf("Gap() panics on accepted round %v: %v", names, p))
	} else if gs != lo || ge != hi {
		report("closing:Gap-bounds", fmt.Sprintf("Gap() of round %v = (%d,%d), member timestamps range %d..%d", names, gs, ge, lo, hi))
	}
	var f *FinalRound
	if p := verifmc.Catch(func() { f = round.asFinal() }); p != nil {
		report("closing:asFinal-panics", fmt.Sprintf("asFinal() panics on accepted round %v: %v", names, p))
	} else if f == nil || f.Start != lo || f.End != hi || !f.Hash.HasValue() || f.NodeId != round.NodeId || f.Number != round.Number {
		report("closing:asFinal-bounds", fmt.Sprintf("asFinal() of round %v = %+v, member timestamps range %d..%d", names, f, lo, hi))
	}
	if after := c19Names(round.Snapshots); !slices.Equal(after, names) {
		report("closing:changes-round", fmt.Sprintf("Gap()/asFinal() changed the round content from %v to %v", names, after))
	}
}

func c19ErrClass(err error) string {
	s := err.Error()
	for _, k := range []string{"duplication", "day leap", "gap start", "gap end"} {
		if strings.Contains(s, k) {
			return strings.ReplaceAll(k, " ", "-")
		}
	}
	return "other"
}

func TestMC_C19(t *testing.T) {
	c := verifmc.Start(t, "C19", "model_checking")
	defer c.Finish()
	c19Build(c.Thorough())
	gap := config.SnapshotRoundGap
	c.SetRule(fmt.Sprintf("BFS over ALL sequences of %d candidate snapshots offered to the real (*CacheRound).validateSnapshot(s, true) on an initially empty cache round, until no candidate is acceptable (frontier exhausted); candidates = timestamps {X-gap, X-1, X, X+1, X+gap/2, X+gap-1, X+gap, X+gap+1, X+2gap-1} for X = a day boundary D and a mid-day instant M of the same day (thorough: + X+2gap, and X = the next day boundary E too) x transaction sets {a},{b},{c},{a,b},{c,d} (thorough: +{d},{e},{a,e},{a,b,c}), snapshot hash = real PayloadHash; canonical state = set of snapshots held by CacheRound.Snapshots; every offer is a transition (a refusal is a self-loop); invariant, Gap() and asFinal() evaluated after every acceptance", len(c19Cands)))
	c.Assume("a plain CacheRound value is enough: validateSnapshot reads only Number and Snapshots (no node, store or index)",
		"all candidates carry the round's number and a non-zero hash (the two panics guarding that are a caller contract, not part of the statement)",
		"the converse direction (a candidate the statement allows is refused) is informational: stricter_than_statement")

	b := &verifmc.BFS[*c19State]{
		C: c, NumEvents: len(c19Cands), MaxDepth: 8, MaxStates: 400000,
		EventName: func(e int) string { return c19Cands[e].name },
		New: func(int) *c19State {
			return &c19State{round: &CacheRound{NodeId: c19Cands[0].snap.NodeId, Number: c19Round}}
		},
		Close: func(*c19State) {},
		Key:   func(s *c19State) string { return strings.Join(c19Names(s.round.Snapshots), " ") },
		Apply: func(s *c19State, e int, replaying bool, report func(key, desc string)) bool {
			snap := c19Cands[e].snap
			cand := &snap
			prev := append([]*common.Snapshot{}, s.round.Snapshots...)
			before := c19Names(prev)
			var err error
			if p := verifmc.Catch(func() { err = s.round.validateSnapshot(cand, true) }); p != nil {
				report("validate-panics", fmt.Sprintf("validateSnapshot(%s) panics on round %v: %v", c19Cands[e].name, before, p))
				return true
			}
			after := c19Names(s.round.Snapshots)
			if err != nil {
				if !slices.Equal(before, after) {
					report("refused-but-changed", fmt.Sprintf("validateSnapshot(%s) returned %q but the round changed from %v to %v", c19Cands[e].name, err, before, after))
				}
				if replaying {
					return true
				}
				reasons := c19Reasons(prev, cand)
				c.Outcome("reject:" + c19ErrClass(err))
				if len(reasons) == 0 {
					c.Stricter("refused (" + c19ErrClass(err) + ") although distinct, same day and within the gap")
					c.Outcome("refused-although-allowed")
				} else {
					c.Outcome("refused-for:" + strings.Join(reasons, "+"))
				}
				return true
			}
			want := append(append([]string{}, before...), c19Cands[e].name)
			sort.Strings(want)
			if !slices.Equal(after, want) {
				report("accepted-but-not-appended", fmt.Sprintf("validateSnapshot(%s, add=true) returned nil on %v but the round is now %v", c19Cands[e].name, before, after))
			}
			if replaying {
				return true
			}
			c.Outcome("accept")
			c.Outcome(fmt.Sprintf("accept:members=%d", len(s.round.Snapshots)))
			if len(prev) > 0 {
				lo, hi := cand.Timestamp, cand.Timestamp
				for _, m := range prev {
					lo, hi = min(lo, m.Timestamp), max(hi, m.Timestamp)
				}
				if hi-lo == gap-1 {
					c.Outcome("accept:span=gap-1")
				}
			}
			c19Invariant(s.round, report)
			return true
		},
	}
	states, trans, depth, exhausted := b.Run()
	c.Set("candidates", int64(len(c19Cands)))
	c.Set("max_depth", depth)
	c.Sample(map[string]any{"history": []string{"D+1/{a}", "D+gap/{b}", "D/{c}"}, "expect": "third offer refused (gap start): span would be exactly the gap, measured against the end moved by the second"})
	c.Sample(map[string]any{"history": []string{"D-1/{a}", "D/{b}"}, "expect": "second offer refused (day leap) although 1 ns apart"})
	if c.Violations() == 0 {
		c.Require(exhausted, "frontier not exhausted at depth %d (%d states)", depth, states)
	}
	c.Require(states > 300 && trans > 20000, "vacuous C19 exploration: %d states %d transitions", states, trans)
	for _, o := range []string{"accept", "accept:members=3", "accept:span=gap-1", "reject:duplication", "reject:day-leap", "reject:gap-start", "reject:gap-end",
		"refused-for:other-day", "refused-for:span>=gap", "refused-for:dup-transaction", "refused-for:dup-timestamp", "refused-for:dup-hash+dup-timestamp+dup-transaction"} {
		c.Require(c.OutcomeCount(o) > 0, "outcome class %q never reached", o)
	}
}
