//go:build verif

package kernel

import (
	"bytes"
	"encoding/binary"
	"encoding/hex"
	"fmt"
	"os"
	"sort"
	"sync"
	"sync/atomic"
	"testing"
	"time"

	"github.com/MixinNetwork/mixin/common"
	"github.com/MixinNetwork/mixin/crypto"
	"github.com/MixinNetwork/mixin/verifmc"
	"github.com/MixinNetwork/mixin/verifmc/fixc"
	"github.com/dgraph-io/badger/v4"
)

// C35 — local topology order is a strictly increasing unique cursor.
//
// Explicit-state BFS (E2) over histories of real Node.TopoWrite calls on three
// chains and of close + reopen (real SetupNode on the same directory), with
// the complete listing / lookup menu evaluated against a Go slice in every
// state.

var c35Events = []string{"write-A", "write-B", "write-C", "reopen"}

type c35Rec struct {
	Pos  uint64
	Hash crypto.Hash
	Txs  []crypto.Hash
}

type c35State struct {
	dir     string
	m       *mcNode
	broken  bool // the instance cannot continue (setup failed)
	ref     []c35Rec
	writes  [3]int
	idx     int
	hist    []byte
	fresh   bool   // no write since the node was (re)built
	pending []int  // replayed events not executed yet (see c35Step)
	jump    uint64 // synthetic: counter value set right before the first write (0 = none)
	jumped  bool
	lastTx  *crypto.Hash         // transaction of the most recent write on chain A or B
	onC     map[crypto.Hash]bool // transactions already carried by a snapshot of chain C
}

func c35Scratch() string {
	base := os.Getenv("VERIF_SCRATCH")
	if base == "" {
		base = os.TempDir()
	}
	d, err := os.MkdirTemp(base, "c35-")
	if err != nil {
		panic(err)
	}
	return d
}

// c35GenesisRef is the reference prefix: the genesis snapshots as built by the
// genesis builder (positions 0..n), independent of the store.
func c35GenesisRef() []c35Rec {
	_, snaps, _, err := mcNet7.Genesis.BuildSnapshots()
	if err != nil {
		panic(err)
	}
	var out []c35Rec
	for _, s := range snaps {
		out = append(out, c35Rec{Pos: s.TopologicalOrder, Hash: s.PayloadHash(), Txs: append([]crypto.Hash(nil), s.Transactions...)})
	}
	return out
}

// c35New creates the (still unopened) instance: the store is created when the
// whole history is known (c35Step), on disk when the history contains a
// reopen, in memory otherwise (a real on-disk Badger open is ~20x dearer).
func c35New(int) *c35State {
	return &c35State{fresh: true, onC: map[crypto.Hash]bool{}, ref: c35GenesisRef()}
}

// c35JumpTo is the synthetic counter value of the second exploration: the
// node's in-memory sequence is set to it right before the first write, so that
// the following positions are 65534, 65535, 65536, 65537 (a 2-byte boundary of
// the big-endian position key) and the stored positions are not contiguous.
const c35JumpTo = 65533

func c35NewJump(int) *c35State {
	s := c35New(0)
	s.jump = c35JumpTo
	return s
}

func (s *c35State) open(disk bool) {
	if disk {
		s.dir = c35Scratch()
	}
	m, err := newMCNode(mcNet7, 0, s.dir)
	if err != nil {
		panic(fmt.Errorf("c35: node setup: %w", err))
	}
	s.m = m
}

func c35Close(s *c35State) {
	if s.m != nil {
		s.m.Close()
	}
	if s.dir != "" {
		_ = os.RemoveAll(s.dir)
	}
}

// c35Step is the BFS transition function. Events of the parent history are only
// recorded while replaying; with the last event the instance is opened and the
// complete history executed for real (position oracle in every step, full
// query menu in the final state).
func c35Step(s *c35State, e int, replaying bool, report func(key, desc string)) bool {
	if replaying {
		s.pending = append(s.pending, e)
		return true
	}
	hist := append(append([]int(nil), s.pending...), e)
	s.pending = nil
	disk := false
	for _, ev := range hist {
		disk = disk || ev == 3
	}
	s.open(disk)
	for i, ev := range hist {
		last := i == len(hist)-1
		rep := report
		if !last {
			rep = func(string, string) {} // reported when that prefix was explored
		}
		if !c35Apply(s, ev, !last, rep) {
			return false
		}
	}
	return true
}

func c35Key(s *c35State) string {
	return fmt.Sprintf("%s|fresh=%v|broken=%v|jump=%d", s.hist, s.fresh, s.broken, s.jump)
}

func (s *c35State) maxPos() uint64 {
	var m uint64
	for _, r := range s.ref {
		if r.Pos > m {
			m = r.Pos
		}
	}
	return m
}

// c35Prepare builds the next well-formed one-transaction snapshot on chain ci on
// the chain's head round. Chains A and B carry a fresh custodian-signed
// deposit (locked and written first). Chain C re-finalizes the transaction of
// the most recent A/B write when it does not carry it yet (the same
// transaction in a second snapshot on another chain is legitimate), otherwise
// a fresh deposit as well.
func c35Prepare(s *c35State, ci int) (*common.Snapshot, []crypto.Hash) {
	store := s.m.Store
	nodeId := s.m.Net.NodeIds[1+ci]
	var txh crypto.Hash
	if ci == 2 && s.lastTx != nil && !s.onC[*s.lastTx] {
		txh = *s.lastTx
	} else {
		acct := fixc.Addr("c35-wallet")
		tx := s.m.Net.DepositXIN(fmt.Sprintf("c35-%d-%d", ci, s.writes[ci]), "1", []*common.Address{&acct}, 1)
		if err := tx.LockInputs(store, false); err != nil {
			panic(err)
		}
		if err := store.WriteTransaction(tx); err != nil {
			panic(err)
		}
		txh = tx.PayloadHash()
		if ci != 2 {
			s.lastTx = &txh
		}
	}
	if ci == 2 {
		s.onC[txh] = true
	}
	head, err := store.ReadRound(nodeId)
	if err != nil || head == nil {
		panic(fmt.Sprint("c35: head round ", err))
	}
	snap := &common.Snapshot{Version: common.SnapshotVersionCommonEncoding, NodeId: nodeId, RoundNumber: head.Number, References: head.References,
		Timestamp: s.m.Net.Epoch + uint64(time.Hour) + uint64(s.idx)*uint64(time.Millisecond)}
	snap.AddTransaction(txh)
	snap.Hash = snap.PayloadHash()
	snap.Signature = &crypto.CosiSignature{Mask: 1}
	return snap, []crypto.Hash{nodeId}
}

func c35Apply(s *c35State, e int, replaying bool, report func(key, desc string)) bool {
	if s.broken {
		return false
	}
	s.idx++
	switch {
	case e < 3:
		snap, signers := c35Prepare(s, e)
		s.writes[e]++
		s.hist = append(s.hist, "ABC"[e])
		s.fresh = false
		var topo *common.SnapshotWithTopologicalOrder
		if s.jump != 0 && !s.jumped {
			s.jumped = true
			s.m.Node.TopoCounter.Lock()
			s.m.Node.TopoCounter.seq = s.jump // synthetic jump of the local counter
			s.m.Node.TopoCounter.Unlock()
		}
		before := s.m.Node.TopologicalOrder()
		if p := verifmc.Catch(func() { topo = s.m.Node.TopoWrite(snap, signers) }); p != nil {
			report("topowrite-failed", fmt.Sprintf("TopoWrite of a well-formed snapshot on chain %c failed with counter %d (stored maximum %d): %v", "ABC"[e], before, s.maxPos(), p))
			s.broken = true
			return true
		}
		if topo.TopologicalOrder <= s.maxPos() {
			report("position-not-increasing", fmt.Sprintf("TopoWrite assigned position %d, an earlier snapshot already has %d", topo.TopologicalOrder, s.maxPos()))
		}
		s.ref = append(s.ref, c35Rec{Pos: topo.TopologicalOrder, Hash: snap.PayloadHash(), Txs: append([]crypto.Hash(nil), snap.Transactions...)})
	default:
		if !s.fresh {
			s.hist = append(s.hist, 'r') // a reopen right after (re)building the node is the same state
		}
		s.fresh = true
		s.m.Close()
		s.m = nil
		m, err := newMCNode(mcNet7, 0, s.dir)
		if err != nil {
			report("reopen-failed", fmt.Sprintf("SetupNode on the reopened directory failed: %v", err))
			s.broken = true
			return true
		}
		s.m = m
		if got := m.Node.TopologicalOrder(); got < s.maxPos() {
			report("counter-behind-after-reopen", fmt.Sprintf("after reopen the node's counter is %d, the stored maximum position is %d", got, s.maxPos()))
		} else if got > s.maxPos() {
			report("counter-ahead-after-reopen", fmt.Sprintf("after reopen the node's counter is %d, the stored maximum position is %d (the counter must resume from the stored maximum)", got, s.maxPos()))
		}
	}
	if !replaying {
		c35Queries(s, report)
	}
	return true
}

func c35SortedRef(s *c35State) []c35Rec {
	out := append([]c35Rec(nil), s.ref...)
	sort.SliceStable(out, func(i, j int) bool { return out[i].Pos < out[j].Pos })
	return out
}

var c35Counts = []uint64{0, 1, 2, 500, 501}

func c35Offsets(ref []c35Rec) []uint64 {
	last := ref[len(ref)-1].Pos
	offs := []uint64{0, 1, ref[len(ref)/2].Pos, last, last + 1, ^uint64(0)}
	if last > 60000 { // synthetic jump: offsets around the gap and the 65536 boundary
		offs = append(offs, 8, 65528, 65534, 65535, 65536)
	}
	return offs
}

// c35Queries evaluates the full query menu against the reference slice.
func c35Queries(s *c35State, report func(key, desc string)) {
	store := s.m.Store
	ref := c35SortedRef(s)
	for _, off := range c35Offsets(ref) {
		i0 := sort.Search(len(ref), func(i int) bool { return ref[i].Pos >= off })
		for _, cnt := range c35Counts {
			got, err := store.ReadSnapshotsSinceTopology(off, cnt)
			q := fmt.Sprintf("ReadSnapshotsSinceTopology(%d,%d)", off, cnt)
			if cnt > 500 {
				if err == nil {
					report("count-over-limit-accepted", fmt.Sprintf("%s returned %d snapshots instead of refusing the count", q, len(got)))
				}
				continue
			}
			if err != nil {
				report("listing-error", fmt.Sprintf("%s: %v", q, err))
				continue
			}
			end := len(ref)
			if uint64(end-i0) > cnt {
				end = i0 + int(cnt)
			}
			want := ref[i0:end]
			if len(got) != len(want) {
				report("listing-window", fmt.Sprintf("%s returned %d snapshots %v, the window of the reference has %d %v", q, len(got), c35Positions(got), len(want), c35RefPositions(want)))
				continue
			}
			for i := range want {
				g := got[i]
				if g.TopologicalOrder != want[i].Pos {
					report("listing-window", fmt.Sprintf("%s element %d has position %d, want %d (got %v want %v)", q, i, g.TopologicalOrder, want[i].Pos, c35Positions(got), c35RefPositions(want)))
					break
				}
				if g.Hash != want[i].Hash || g.PayloadHash() != want[i].Hash {
					report("listing-hash", fmt.Sprintf("%s element %d at position %d carries hash %s / payload hash %s, written was %s", q, i, g.TopologicalOrder, g.Hash, g.PayloadHash(), want[i].Hash))
					break
				}
			}
		}
	}
	// listing with transactions (same cursor code path + transaction bodies)
	snaps, txs, err := store.ReadSnapshotWithTransactionsSinceTopology(0, 500)
	if err != nil || len(snaps) != len(ref) || len(txs) != len(ref) {
		report("listing-with-transactions", fmt.Sprintf("ReadSnapshotWithTransactionsSinceTopology(0,500): %d snapshots %d tx lists, want %d: %v", len(snaps), len(txs), len(ref), err))
	} else {
		for i := range ref {
			ok := len(txs[i]) == len(ref[i].Txs)
			for j := 0; ok && j < len(ref[i].Txs); j++ {
				ok = txs[i][j] != nil && txs[i][j].PayloadHash() == ref[i].Txs[j]
			}
			if !ok || snaps[i].TopologicalOrder != ref[i].Pos {
				report("listing-with-transactions", fmt.Sprintf("ReadSnapshotWithTransactionsSinceTopology(0,500) element %d does not match the written snapshot", i))
				break
			}
		}
	}
	if _, _, err := store.ReadSnapshotWithTransactionsSinceTopology(0, 501); err == nil {
		report("count-over-limit-accepted", "ReadSnapshotWithTransactionsSinceTopology(0,501) did not refuse the count")
	}
	// lookup by hash
	for _, r := range s.ref {
		g, err := store.ReadSnapshot(r.Hash)
		if err != nil || g == nil {
			report("lookup-missing", fmt.Sprintf("ReadSnapshot(%s) of the snapshot written at position %d: %v %v", r.Hash, r.Pos, g, err))
			continue
		}
		if g.TopologicalOrder != r.Pos || g.Hash != r.Hash || g.PayloadHash() != r.Hash {
			report("lookup-position", fmt.Sprintf("ReadSnapshot(%s) returns position %d hash %s payload %s, written at position %d", r.Hash, g.TopologicalOrder, g.Hash, g.PayloadHash(), r.Pos))
		}
	}
	if g, err := store.ReadSnapshot(fixc.Hash("c35-unknown")); g != nil || err != nil {
		report("lookup-unknown", fmt.Sprintf("ReadSnapshot(unknown hash) = %v %v", g, err))
	}
	// raw dump: TOPOLOGY and SNAPTOPO are a bijection and equal the reference
	topo := store.VerifDump("TOPOLOGY")
	rev := store.VerifDump("SNAPTOPO")
	if len(topo) != len(s.ref) || len(rev) != len(s.ref) {
		report("index-bijection", fmt.Sprintf("%d TOPOLOGY keys, %d SNAPTOPO keys, %d snapshots written", len(topo), len(rev), len(s.ref)))
	}
	hit := map[string]int{}
	for hk, tk := range rev {
		hb, _ := hex.DecodeString(hk)
		sv, ok := topo[tk]
		if !ok {
			report("index-bijection", fmt.Sprintf("SNAPTOPO entry of %x points to a TOPOLOGY key %s that does not exist", hb[len("SNAPTOPO"):], tk))
			continue
		}
		hit[tk]++
		sb, _ := hex.DecodeString(sv)
		if len(sb) < 32 || !bytes.Equal(sb[len(sb)-32:], hb[len("SNAPTOPO"):]) {
			report("index-bijection", fmt.Sprintf("TOPOLOGY key %s holds snapshot %x, SNAPTOPO of %x points to it", tk, sb[len(sb)-32:], hb[len("SNAPTOPO"):]))
		}
	}
	refByPos := map[uint64]crypto.Hash{}
	for _, r := range s.ref {
		refByPos[r.Pos] = r.Hash
	}
	for tk, sv := range topo {
		if hit[tk] != 1 {
			report("index-bijection", fmt.Sprintf("TOPOLOGY key %s is referenced by %d SNAPTOPO entries", tk, hit[tk]))
		}
		kb, _ := hex.DecodeString(tk)
		sb, _ := hex.DecodeString(sv)
		pos := binary.BigEndian.Uint64(kb[len("TOPOLOGY"):])
		want, ok := refByPos[pos]
		if !ok || len(sb) < 32 || !bytes.Equal(sb[len(sb)-32:], want[:]) {
			report("index-content", fmt.Sprintf("TOPOLOGY position %d holds snapshot %x, written there: %v (known %v)", pos, sb[len(sb)-32:], want, ok))
		}
	}
}

func c35Positions(l []*common.SnapshotWithTopologicalOrder) []uint64 {
	out := make([]uint64, len(l))
	for i, s := range l {
		out[i] = s.TopologicalOrder
	}
	return out
}

func c35RefPositions(l []c35Rec) []uint64 {
	out := make([]uint64, len(l))
	for i, s := range l {
		out[i] = s.Pos
	}
	return out
}

func TestMC_C35(t *testing.T) {
	c := verifmc.Start(t, "C35", "model_checking")
	defer c.Finish()
	c.SetRule("(1) BFS over all histories of {TopoWrite of the next prepared one-transaction snapshot on chain A/B/C (A,B: fresh deposit; C: re-finalization of the latest A/B transaction when not yet on C, else a fresh deposit), close + reopen of the on-disk store with a real SetupNode} (histories without a reopen run on in-memory Badger, all others on disk); state = sequence of writes with reopen marks (a reopen directly after (re)building the node is the same state); in every state the full menu ReadSnapshotsSinceTopology(off,cnt) for off in {0,1,middle,last,last+1,2^64-1} x cnt in {0,1,2,500,501}, ReadSnapshotWithTransactionsSinceTopology, ReadSnapshot of every written and one unknown hash, and the raw TOPOLOGY/SNAPTOPO dump are compared with a Go slice of (position, payload hash); (2) the same BFS over {write-A, write-B, reopen} with the node's counter set (synthetic) to 65533 before the first write so that positions are non-contiguous and cross 65536, extra offsets {8,65528,65534,65535,65536}; (3) every interleaving up to the preemption bound of two threads calling TopoWrite on different chains (scheduling points: counter mutex, store mutex, Badger txn begin/commit); (4) long graph: one store with 330 (thorough 700) further finalized snapshots of 1/2/3 transactions on 7 chains, EVERY page (cursor in 0..last+2) x count in {0,1,2,10,99,100,101,200,500} of both listing calls compared with the reference list and with the lookup by hash")
	c.Assume("snapshots are handed to Node.TopoWrite directly (the finalization path above it is not part of this property)", "the reference prefix is the genesis snapshot list produced by Genesis.BuildSnapshots", "Badger transactions are atomic; close is clean (no crash)", "the counter jump of part (2) is synthetic (harness writes node.TopoCounter.seq); everything after it is the real code", "part (3): a Badger transaction reads at begin and publishes at commit, so mutexes and begin/commit are the scheduling points that matter")

	// sanity of the fixture before exploring
	{
		s := c35New(0)
		s.open(true)
		g, err := s.m.Store.ReadSnapshotsSinceTopology(0, 500)
		c.Require(err == nil && len(g) == len(s.ref) && len(s.ref) == len(mcNet7.Signers)+1, "genesis listing has %d snapshots, reference %d: %v", len(g), len(s.ref), err)
		c.Require(s.m.Node.TopologicalOrder() == s.maxPos(), "fresh node counter %d, genesis maximum %d", s.m.Node.TopologicalOrder(), s.maxPos())
		c35Close(s)
	}
	// part (4) first: it is cheap and independent of the explorations below
	c35LongGraph(c)

	depth := verifmc.Pick(c, 4, 6)
	step := func(evmap []int) func(s *c35State, e int, replaying bool, report func(key, desc string)) bool {
		return func(s *c35State, e int, replaying bool, report func(key, desc string)) bool {
			ok := c35Step(s, evmap[e], replaying, report)
			if ok && !replaying && s.m != nil {
				n := int64(len(c35Counts)*len(c35Offsets(c35SortedRef(s))) + 3 + len(s.ref) + 1 + 1) // listings + with-transactions + lookups + unknown + raw dump
				c.Add("queries", n)
				c.Eval(n)
			}
			return ok
		}
	}
	b := &verifmc.BFS[*c35State]{
		C: c, NumEvents: len(c35Events), MaxDepth: depth,
		EventName: func(e int) string { return c35Events[e] },
		New:       c35New,
		Apply:     step([]int{0, 1, 2, 3}),
		Key:       c35Key,
		Close:     c35Close,
	}
	states, trans, d, _ := b.Run()
	c.Set("max_depth", d)
	c.Set("chains", 3)
	c.Set("bfs_main", map[string]int64{"states": states, "transitions": trans})
	c.Require(states >= 100 && trans > states, "vacuous C35 exploration: %d states %d transitions", states, trans)
	c.Require(c.OutcomeCount("event:reopen") > 0 && c.OutcomeCount("event:write-A") > 0 && c.OutcomeCount("event:write-C") > 0, "an event never fired")

	// second exploration: the same histories over {write-A, write-B, reopen} with the
	// node's counter moved (synthetically) next to a 2-byte boundary of the position key
	jm := []int{0, 1, 3}
	var crossed atomic.Int64
	jstep := step(jm)
	bj := &verifmc.BFS[*c35State]{
		C: c, NumEvents: len(jm), MaxDepth: verifmc.Pick(c, 4, 5),
		EventName: func(e int) string { return "jump:" + c35Events[jm[e]] },
		New:       c35NewJump,
		Apply: func(s *c35State, e int, replaying bool, report func(key, desc string)) bool {
			ok := jstep(s, e, replaying, report)
			if ok && !replaying && s.maxPos() >= 65536 {
				crossed.Add(1)
			}
			return ok
		},
		Key:   c35Key,
		Close: c35Close,
	}
	js, jt, _, _ := bj.Run()
	c.Set("bfs_synthetic_jump", map[string]int64{"states": js, "transitions": jt, "counter_set_to": c35JumpTo, "states_beyond_65536": crossed.Load()})
	c.Require(js >= 40 && crossed.Load() >= 10, "vacuous jump exploration: %d states, %d beyond the boundary", js, crossed.Load())

	c35Concurrent(c)
}

// ---- long graph: every page of a store with several hundred snapshots --------------------

var c35LongCounts = []uint64{0, 1, 2, 10, 99, 100, 101, 200, 500}

// c35LongGraph builds ONE store with n finalized snapshots after genesis
// (storage-level WriteTransaction + WriteSnapshot with consecutive positions;
// 1, 2 or 3 transactions per snapshot, spread over the 7 chains) and compares
// every page (cursor in 0..last+2) x (count menu) of both listing calls with
// the reference list: starts at the cursor, positions increase by one, each
// entry carries the position recorded for its hash (lookup by hash), bodies
// and transactions equal, length = min(count, remaining).
func c35LongGraph(c *verifmc.Check) {
	n := verifmc.Pick(c, 330, 700)
	t0 := time.Now()
	defer func() { c.Set("long_graph_wall_s", time.Since(t0).Seconds()) }()
	m, err := newMCNode(mcNet7, 0, "")
	if err != nil {
		panic(fmt.Errorf("c35: long graph node: %w", err))
	}
	defer m.Close()
	store := m.Store
	ref := c35GenesisRef()
	acct := fixc.Addr("c35-long-wallet")
	base := m.Net.Epoch + uint64(time.Hour)
	for i := 0; i < n; i++ {
		var txs []*common.VersionedTransaction
		for k := 0; k < 1+i%3; k++ { // a snapshot cannot be encoded without transactions
			txs = append(txs, m.Net.DepositXIN(fmt.Sprintf("c35-long-%d-%d", i, k), "1", []*common.Address{&acct}, 1))
		}
		topo, err := store.VerifFinalize(m.Net.NodeIds[i%len(m.Net.NodeIds)], base+uint64(i)*uint64(time.Millisecond), true, txs...)
		if err != nil {
			panic(fmt.Errorf("c35: long graph write %d: %w", i, err))
		}
		if topo.TopologicalOrder != uint64(len(ref)) {
			c.Require(false, "long graph: write %d got position %d, want consecutive %d", i, topo.TopologicalOrder, len(ref))
			return
		}
		ref = append(ref, c35Rec{Pos: topo.TopologicalOrder, Hash: topo.PayloadHash(), Txs: append([]crypto.Hash(nil), topo.Transactions...)})
	}
	last := ref[len(ref)-1].Pos
	c.Set("long_graph_snapshots", len(ref))

	// position recorded for every snapshot hash (lookup by hash)
	lookup := map[crypto.Hash]uint64{}
	for _, r := range ref {
		g, err := store.ReadSnapshot(r.Hash)
		c.Eval(1)
		if err != nil || g == nil {
			c.Violation("lookup-missing:long-graph", fmt.Sprintf("ReadSnapshot(%s) of the snapshot written at position %d: %v %v", r.Hash, r.Pos, g, err), map[string]any{"part": "long-graph", "position": r.Pos})
			continue
		}
		lookup[r.Hash] = g.TopologicalOrder
		if g.TopologicalOrder != r.Pos || g.PayloadHash() != r.Hash {
			c.Violation("lookup-position:long-graph", fmt.Sprintf("ReadSnapshot(%s) returns position %d payload %s, written at position %d", r.Hash, g.TopologicalOrder, g.PayloadHash(), r.Pos), map[string]any{"part": "long-graph", "position": r.Pos})
		}
	}

	var queries atomic.Int64
	c.ParallelN(int(last)+3, "long graph pages", func(_, ci int) {
		cursor := uint64(ci)
		for _, cnt := range c35LongCounts {
			for fn := 0; fn < 2; fn++ {
				var got []*common.SnapshotWithTopologicalOrder
				var txs [][]*common.VersionedTransaction
				var err error
				name := "ReadSnapshotsSinceTopology"
				if fn == 0 {
					got, err = store.ReadSnapshotsSinceTopology(cursor, cnt)
				} else {
					name = "ReadSnapshotWithTransactionsSinceTopology"
					got, txs, err = store.ReadSnapshotWithTransactionsSinceTopology(cursor, cnt)
				}
				q := fmt.Sprintf("%s(%d,%d) on %d snapshots", name, cursor, cnt, len(ref))
				replay := map[string]any{"part": "long-graph", "snapshots": len(ref), "call": name, "cursor": cursor, "count": cnt}
				queries.Add(1)
				c.Eval(1)
				c.Distinct(fmt.Sprintf("long|%d|%d|%d", fn, cursor, cnt))
				if err != nil {
					c.Violation("listing-error:long-graph", fmt.Sprintf("%s: %v", q, err), replay)
					continue
				}
				var want []c35Rec
				if cursor < uint64(len(ref)) {
					end := uint64(len(ref))
					if end-cursor > cnt {
						end = cursor + cnt
					}
					want = ref[cursor:end]
				}
				switch {
				case len(want) == 0:
					c.Outcome("long:empty-page")
				case uint64(len(want)) == cnt:
					c.Outcome("long:full-page")
				default:
					c.Outcome("long:short-page")
				}
				if len(got) != len(want) || (fn == 1 && len(txs) != len(want)) {
					c.Violation("listing-window:long-graph", fmt.Sprintf("%s returned %d snapshots (%d transaction lists), want min(count, remaining) = %d", q, len(got), len(txs), len(want)), replay)
					continue
				}
				for i, w := range want {
					g := got[i]
					if g.TopologicalOrder != w.Pos {
						c.Violation("listing-window:long-graph", fmt.Sprintf("%s element %d has position %d, the page must start at the cursor and increase by one: want %d (first positions returned %v)", q, i, g.TopologicalOrder, w.Pos, c35Positions(got[:min(len(got), 5)])), replay)
						break
					}
					if lp, ok := lookup[g.PayloadHash()]; !ok || lp != g.TopologicalOrder {
						c.Violation("listing-position-vs-lookup:long-graph", fmt.Sprintf("%s element %d carries position %d, lookup by hash %s gives %d (known %v)", q, i, g.TopologicalOrder, g.PayloadHash(), lp, ok), replay)
						break
					}
					same := g.Hash == w.Hash && g.PayloadHash() == w.Hash && len(g.Transactions) == len(w.Txs)
					for j := 0; same && j < len(w.Txs); j++ {
						same = g.Transactions[j] == w.Txs[j]
					}
					if !same {
						c.Violation("listing-hash:long-graph", fmt.Sprintf("%s element %d at position %d is not the snapshot written there (hash %s payload %s, written %s)", q, i, g.TopologicalOrder, g.Hash, g.PayloadHash(), w.Hash), replay)
						break
					}
					if fn == 1 {
						ok := len(txs[i]) == len(w.Txs)
						for j := 0; ok && j < len(w.Txs); j++ {
							ok = txs[i][j] != nil && txs[i][j].PayloadHash() == w.Txs[j]
						}
						if !ok {
							c.Violation("listing-with-transactions:long-graph", fmt.Sprintf("%s element %d at position %d does not carry the transactions of the written snapshot", q, i, g.TopologicalOrder), replay)
							break
						}
					}
				}
			}
		}
	})
	c.Set("long_graph_queries", queries.Load())
	c.Sample(map[string]any{"part": "long-graph", "snapshots": len(ref), "call": "ReadSnapshotsSinceTopology", "cursor": 1, "count": 10, "expect": "positions 1..10, each equal to ReadSnapshot(hash).TopologicalOrder"})
	c.Require(len(ref) >= 330 && (c.OutcomeCount("long:full-page") > 1000 && c.OutcomeCount("long:short-page") > 100 && c.OutcomeCount("long:empty-page") > 0 || c.Expired("long graph")), "vacuous long-graph part")
}

// TestMCRace_C35 is the separate free-running pass (go test -race) over the
// bodies of the concurrent TopoWrite scenarios.
func TestMCRace_C35(t *testing.T) {
	c := verifmc.Start(t, "C35", "model_checking")
	defer c.Finish()
	c35Concurrent(c)
	verifmc.RacePassDone("C35")
}

// ---- concurrent part: two finalizers call TopoWrite at the same time -----------------

type c35Ret struct {
	Thread int
	Pos    uint64
}

// c35Concurrent explores every interleaving (up to the preemption bound) of
// concurrent TopoWrite calls on different chains at the counter mutex, the store
// mutex and the Badger transaction begin/commit points. Oracle: positions are
// returned in strictly increasing order, and once a call has returned position
// p every position <= p is stored (the listing from 0 is contiguous up to p: a
// pager that advanced to p+1 can never miss a snapshot).
func c35Concurrent(c *verifmc.Check) {
	badger.VerifHook = func(kind, dir string, writes int) error {
		verifmc.Point("txn." + kind)
		return nil
	}
	defer func() { badger.VerifHook = nil }()
	scenarios := []struct {
		name    string
		threads [][]int // chains written by each thread, in order
	}{
		{"A|B", [][]int{{0}, {1}}},
		{"A,C|B", [][]int{{0, 2}, {1}}},
	}
	bound := verifmc.Pick(c, 2, 3)
	var mu sync.Mutex
	var execs int64
	orders := map[string]bool{}
	c.ParallelN(len(scenarios), "concurrent TopoWrite", func(_, si int) {
		sc := scenarios[si]
		ex := &verifmc.Explorer{C: c, Bound: bound, Name: "concurrent:" + sc.name}
		ex.Body = func(sched *verifmc.Sched, report func(key, desc string)) string {
			s := c35New(0)
			s.open(false)
			defer c35Close(s)
			genesis := len(s.ref)
			// prepare every snapshot before the threads start (transactions locked and written)
			type prepared struct {
				snap    *common.Snapshot
				signers []crypto.Hash
			}
			prep := make([][]prepared, len(sc.threads))
			for ti, chains := range sc.threads {
				for _, ci := range chains {
					s.idx++
					s.lastTx = nil // fresh deposits only: the snapshots are independent
					snap, signers := c35Prepare(s, ci)
					s.writes[ci]++
					prep[ti] = append(prep[ti], prepared{snap, signers})
				}
			}
			var rets []c35Ret // return order (one thread runs at a time)
			var rmu sync.Mutex
			hashes := map[uint64]crypto.Hash{}
			for ti := range sc.threads {
				ti := ti
				sched.Go(fmt.Sprint("t", ti), func() {
					for _, p := range prep[ti] {
						topo := s.m.Node.TopoWrite(p.snap, p.signers)
						// no scheduling point since the return; the mutex only matters in
						// the free-running race pass (it spans no scheduling point)
						rmu.Lock()
						rets = append(rets, c35Ret{ti, topo.TopologicalOrder})
						hashes[topo.TopologicalOrder] = p.snap.PayloadHash()
						if n := len(rets); n > 1 && rets[n-2].Pos >= topo.TopologicalOrder && !verifmc.FreeRunning() {
							report("concurrent-return-order", fmt.Sprintf("scenario %s: TopoWrite returned position %d after position %d had been returned", sc.name, topo.TopologicalOrder, rets[n-2].Pos))
						}
						rmu.Unlock()
						got, err := s.m.Store.ReadSnapshotsSinceTopology(0, 500)
						if err != nil {
							report("concurrent-listing-error", err.Error())
							continue
						}
						have := map[uint64]bool{}
						for _, g := range got {
							have[g.TopologicalOrder] = true
						}
						for q := uint64(0); q <= topo.TopologicalOrder; q++ {
							if !have[q] {
								report("concurrent-hole", fmt.Sprintf("scenario %s: TopoWrite returned position %d while position %d is not stored (listing from 0: %v); a pager at %d skips it for good", sc.name, topo.TopologicalOrder, q, c35Positions(got), topo.TopologicalOrder+1))
								break
							}
						}
					}
				})
			}
			panics := sched.RunAll()
			for ti, p := range panics {
				if p != nil {
					report("concurrent-panic", fmt.Sprintf("scenario %s thread %d: %v", sc.name, ti, p))
				}
			}
			if sched.Deadlock {
				report("concurrent-deadlock", "no enabled thread: "+fmt.Sprint(sched.Trace))
				return "deadlock"
			}
			// final state: every returned position holds the returned snapshot
			total := 0
			for _, p := range prep {
				total += len(p)
			}
			if len(rets) == total {
				sorted := append([]c35Ret(nil), rets...)
				sort.Slice(sorted, func(i, j int) bool { return sorted[i].Pos < sorted[j].Pos })
				for _, r := range sorted {
					s.ref = append(s.ref, c35Rec{Pos: r.Pos, Hash: hashes[r.Pos]})
				}
				got, err := s.m.Store.ReadSnapshotsSinceTopology(uint64(genesis), 500)
				if err != nil || len(got) != total {
					report("concurrent-final-listing", fmt.Sprintf("scenario %s: %d snapshots listed after genesis, %d written: %v", sc.name, len(got), total, err))
				} else {
					for i, g := range got {
						if g.TopologicalOrder != sorted[i].Pos || g.PayloadHash() != hashes[sorted[i].Pos] {
							report("concurrent-final-listing", fmt.Sprintf("scenario %s: listed element %d is (%d,%s), written (%d,%s)", sc.name, i, g.TopologicalOrder, g.PayloadHash(), sorted[i].Pos, hashes[sorted[i].Pos]))
						}
					}
				}
			}
			out := ""
			for _, r := range rets {
				out += fmt.Sprintf("t%d=%d ", r.Thread, r.Pos)
			}
			mu.Lock()
			orders[sc.name+":"+out] = true
			mu.Unlock()
			return out
		}
		ex.Run()
		mu.Lock()
		execs += ex.Executions
		mu.Unlock()
	})
	c.Set("concurrent_scenarios", len(scenarios))
	c.Set("concurrent_executions", execs)
	c.Set("preemption_bound", bound)
	c.Set("concurrent_return_orders", len(orders))
	c.Require(verifmc.FreeRunning() || execs >= 20 && (len(orders) >= 4 || c.Violations() > 0), "vacuous concurrent part: %d executions, %d distinct return orders", execs, len(orders))
}
