//go:build verif

package kernel

import (
	"fmt"
	"math/big"
	"math/bits"
	"runtime"
	"runtime/debug"
	"strings"
	"sync/atomic"
	"testing"
	"time"

	"github.com/MixinNetwork/mixin/common"
	"github.com/MixinNetwork/mixin/crypto"
	"github.com/MixinNetwork/mixin/storage"
	"github.com/MixinNetwork/mixin/verifmc"
	"github.com/MixinNetwork/mixin/verifmc/fixc"
)

// C25 — mint schedule and distribution are bounded, exact and work-monotone.
//
// (a) schedule: mintBatchSize for every batch of the horizon, and
//     mintMultiBatchesSize over every window pair around every year boundary.
// (b) distribution: the unmodified distributeKernelMintByWorks and
//     buildUniversalMintTransaction on a real node whose store is wrapped so
//     that only the work / space readers are answered by the harness; the
//     per-node work vectors are enumerated exhaustively over value sub-menus.

// ---------------------------------------------------------------- helpers

// c25Units converts an amount to its integer number of 1e-8 units without
// touching common.Integer arithmetic (the text form is exact).
func c25Units(x common.Integer) *big.Int {
	s := strings.Replace(x.String(), ".", "", 1)
	v, ok := new(big.Int).SetString(s, 10)
	if !ok {
		panic("c25Units " + s)
	}
	return v
}

const c25TinyUnits = 1000 // batch amounts below 1e-5 XIN are keyed separately

func c25Bucket(amount *big.Int) string {
	if amount.Cmp(big.NewInt(c25TinyUnits)) < 0 {
		return "tiny"
	}
	return "normal"
}

// ---------------------------------------------------------------- store wrapper

// c25Store embeds the real store and overrides only the three work / space
// readers the distribution uses.
type c25Store struct {
	storage.Store
	order map[crypto.Hash]int
	day   uint32      // the mint day (timestamp / OneDay)
	prev  [][2]uint64 // (lead, sign) of day-1: the enumerated vector
	today [][2]uint64 // (lead, sign) of the mint day: aggregator readiness
	ckpt  []uint64    // round space checkpoint batch per node
	other int         // reads for a day the harness does not model (must stay 0)
	reads int
}

func (s *c25Store) ListNodeWorks(cids []crypto.Hash, day uint32) (map[crypto.Hash][2]uint64, error) {
	s.reads++
	var src [][2]uint64
	switch day {
	case s.day:
		src = s.today
	case s.day - 1:
		src = s.prev
	default:
		s.other++
		return s.Store.ListNodeWorks(cids, day)
	}
	works := make(map[crypto.Hash][2]uint64, len(cids))
	for _, id := range cids {
		works[id] = src[s.order[id]]
	}
	return works, nil
}

func (s *c25Store) ListAggregatedRoundSpaceCheckpoints(cids []crypto.Hash) (map[crypto.Hash]*common.RoundSpace, error) {
	s.reads++
	spaces := make(map[crypto.Hash]*common.RoundSpace, len(cids))
	for _, id := range cids {
		spaces[id] = &common.RoundSpace{NodeId: id, Batch: s.ckpt[s.order[id]]}
	}
	return spaces, nil
}

func (s *c25Store) ReadNodeRoundSpacesForBatch(nodeId crypto.Hash, batch uint64) ([]*common.RoundSpace, error) {
	s.reads++
	if s.order[nodeId]%2 == 1 {
		return []*common.RoundSpace{{NodeId: nodeId, Batch: batch, Round: 1, Duration: uint64(time.Hour)}}, nil
	}
	return nil, nil
}

// c25Strict has NO backing store except for the five methods listed here: any
// other store call made by the mint construction path is a nil dereference,
// which the harness turns into a guard failure. It documents exactly which
// store methods buildUniversalMintTransaction reaches.
type c25Strict struct {
	storage.Store // nil on purpose
	w             *c25Store
	real          storage.Store
	calls         map[string]int
}

func (s *c25Strict) ListNodeWorks(cids []crypto.Hash, day uint32) (map[crypto.Hash][2]uint64, error) {
	s.calls["ListNodeWorks"]++
	return s.w.ListNodeWorks(cids, day)
}
func (s *c25Strict) ListAggregatedRoundSpaceCheckpoints(cids []crypto.Hash) (map[crypto.Hash]*common.RoundSpace, error) {
	s.calls["ListAggregatedRoundSpaceCheckpoints"]++
	return s.w.ListAggregatedRoundSpaceCheckpoints(cids)
}
func (s *c25Strict) ReadNodeRoundSpacesForBatch(id crypto.Hash, batch uint64) ([]*common.RoundSpace, error) {
	s.calls["ReadNodeRoundSpacesForBatch"]++
	return s.w.ReadNodeRoundSpacesForBatch(id, batch)
}
func (s *c25Strict) ReadLastMintDistribution(batch uint64) (*common.MintDistribution, error) {
	s.calls["ReadLastMintDistribution"]++
	return s.real.ReadLastMintDistribution(batch)
}
func (s *c25Strict) ReadLastConsensusSnapshot() (*common.Snapshot, error) {
	s.calls["ReadLastConsensusSnapshot"]++
	return s.real.ReadLastConsensusSnapshot()
}

// ---------------------------------------------------------------- fixture

type c25Batch struct {
	m       *mcNode
	st      *c25Store
	batch   uint64
	ts      uint64
	amount  *big.Int // the batch amount in units (mintBatchSize(batch))
	cust    *common.CustodianUpdateRequest
	genesis []*CNode
	acc     []*CNode
	thr     int
	// history part: the last finalized mint is batch-gap-1, so the mint of
	// `batch` covers gap+1 batches; validate selects the validate-only evaluation
	gap      uint64
	validate bool
}

type c25Ctx struct{ b []*c25Batch }

func c25MintTime(epoch, batch uint64) uint64 {
	return epoch + batch*OneDay + 8*uint64(time.Hour)
}

// c25NewBatch builds a real node whose last finalized mint is batch-1 (written
// through the real LockMintInput / WriteTransaction / WriteSnapshot path when it
// is not the built-in legacy ending), so that the real
// checkUniversalMintPossibility yields exactly the single batch amount.
func c25NewBatch(batch uint64) (*c25Batch, error) { return c25NewBatchGap(batch, 0) }

// c25NewBatchGap: the last finalized mint is batch-gap-1 (gap skipped days), so
// the real checkUniversalMintPossibility yields a (gap+1)-batch mint.
func c25NewBatchGap(batch, gap uint64) (*c25Batch, error) {
	m, err := newMCNode(mcNet7, 0, "")
	if err != nil {
		return nil, err
	}
	node := m.Node
	b := &c25Batch{m: m, batch: batch, ts: c25MintTime(node.Epoch, batch), gap: gap}
	old := batch - gap - 1
	if old > KernelNetworkLegacyEnding {
		last, err := m.Store.ReadLastConsensusSnapshot()
		if err != nil || last == nil {
			return nil, fmt.Errorf("no consensus snapshot: %v", err)
		}
		prev := mintBatchSize(old)
		tx := common.NewTransactionV5(common.XINAssetId)
		tx.AddUniversalMintInput(old, prev)
		tx.References = last.Transactions
		cu := fixc.Pub(mcNet7.Custodian)
		tx.AddScriptOutput([]*common.Address{&cu}, common.NewThresholdScript(1), prev, make([]byte, 64))
		_, err = m.Store.VerifFinalize(mcNet7.NodeIds[0], c25MintTime(node.Epoch, old), true, tx.AsVersioned())
		if err != nil {
			return nil, fmt.Errorf("install mint %d: %v", old, err)
		}
	} else if old < KernelNetworkLegacyEnding {
		return nil, fmt.Errorf("batch %d gap %d reaches below the legacy ending", batch, gap)
	}
	if got := node.lastMintDistribution().Batch; got != old {
		return nil, fmt.Errorf("last mint batch %d, want %d", got, old)
	}
	// the statement's amount: the sum of the single batch amounts
	b.amount = new(big.Int)
	for i := old + 1; i <= batch; i++ {
		b.amount.Add(b.amount, c25Units(mintBatchSize(i)))
	}
	b.cust, err = m.Store.ReadCustodian(b.ts)
	if err != nil || b.cust == nil {
		return nil, fmt.Errorf("custodian: %v", err)
	}
	b.genesis = append([]*CNode{}, node.allNodesSortedWithState...)
	b.st = &c25Store{Store: m.Store, day: uint32(b.ts / OneDay)}
	node.persistStore = b.st
	b.install(len(b.genesis))
	return b, nil
}

// install makes the node believe in n accepted nodes: the 7 real genesis nodes
// plus n-7 accepted nodes installed directly into the node state lists, the
// way kernel/removal_consensus_test.go does (no pledge / accept transactions).
func (b *c25Batch) install(n int) {
	node := b.m.Node
	states := append([]*CNode{}, b.genesis...)
	for i := len(states); i < n; i++ {
		s := fixc.Pub(fixc.NodeAddr(fmt.Sprintf("c25-signer-%d", i)))
		p := fixc.Pub(fixc.NodeAddr(fmt.Sprintf("c25-payee-%d", i)))
		states = append(states, &CNode{
			IdForNetwork: s.Hash().ForNetwork(node.networkId),
			Signer:       s,
			Payee:        p,
			Transaction:  fixc.Hash(fmt.Sprintf("c25-accept-%d", i)),
			Timestamp:    node.Epoch + uint64(i),
			State:        common.NodeStateAccepted,
		})
	}
	node.allNodesSortedWithState = states
	node.nodeStateSequences = node.buildNodeStateSequences(states, false)
	node.acceptedNodeStateSequences = node.buildNodeStateSequences(states, true)
	b.acc = node.NodesListWithoutState(b.ts, true)
	b.thr = node.ConsensusThreshold(b.ts, false)
	b.st.order = make(map[crypto.Hash]int, n)
	for i, cn := range b.acc {
		b.st.order[cn.IdForNetwork] = i
	}
	b.ready(n, n)
}

// ready sets the aggregator readiness: the first k nodes have lead work on the
// mint day, the first j nodes have a round space checkpoint at the mint batch.
func (b *c25Batch) ready(k, j int) {
	n := len(b.acc)
	b.st.today = make([][2]uint64, n)
	b.st.ckpt = make([]uint64, n)
	for i := 0; i < n; i++ {
		if i < k {
			b.st.today[i] = [2]uint64{1, 0}
		}
		if i < j {
			b.st.ckpt[i] = b.batch
		}
	}
}

func c25NewCtx(batches []uint64) (*c25Ctx, error) {
	x := &c25Ctx{}
	for _, bn := range batches {
		b, err := c25NewBatch(bn)
		if err != nil {
			return nil, err
		}
		x.b = append(x.b, b)
	}
	return x, nil
}

func (x *c25Ctx) close() {
	for _, b := range x.b {
		b.m.Close()
	}
}

// ---------------------------------------------------------------- oracle

var c25Modes = []string{"lead", "sign", "both", "alt", "mix"}

// c25Pair maps a menu value to the (lead, sign) counters of node idx.
func c25Pair(mode, idx int, v uint64) [2]uint64 {
	switch mode {
	case 0:
		return [2]uint64{v, 0}
	case 1:
		return [2]uint64{0, v}
	case 2:
		return [2]uint64{v, v}
	case 3:
		if idx%2 == 0 {
			return [2]uint64{v, 0}
		}
		return [2]uint64{0, v}
	}
	// mix: every kind of node in one vector — leader only (lead>0, sign=0),
	// signer only (lead=0, sign>0), both equal, both different; v=0 gives (0,0)
	switch idx % 4 {
	case 0:
		return [2]uint64{v, 0}
	case 1:
		return [2]uint64{0, v}
	case 2:
		return [2]uint64{v, v}
	}
	return [2]uint64{v, 2 * v}
}

// c25Weight is the statement's notion of a node's work in 1e-8 units: a led
// snapshot counts 1.2, a signed one 1.
func c25Weight(w [2]uint64) *big.Int {
	l := new(big.Int).Mul(new(big.Int).SetUint64(w[0]), big.NewInt(120000000))
	s := new(big.Int).Mul(new(big.Int).SetUint64(w[1]), big.NewInt(100000000))
	return l.Add(l, s)
}

type c25Run struct {
	c      *verifmc.Check
	branch [4]atomic.Int64 // upper clamp, above average, lower clamp, identity
	sampled atomic.Int64
	bases   []common.Integer // kernel bases for the direct distribution calls
}

type c25Case struct {
	N      int      `json:"n"`
	Mode   string   `json:"mode"`
	Values []uint64 `json:"values"`
	Batch  uint64   `json:"batch"`
	Ready  [2]int   `json:"ready_works_spaces"`
	Base   string   `json:"direct_base,omitempty"`
	Gap    uint64   `json:"skipped_batches,omitempty"`
	Step   string   `json:"history_step,omitempty"`
}

// monotone: W_i > W_j => out_i >= out_j, W_i == W_j => out_i == out_j.
func c25Monotone(ws, outs []*big.Int) (int, int, bool) {
	for i := range ws {
		for j := range ws {
			if ws[i].Cmp(ws[j]) >= 0 && outs[i].Cmp(outs[j]) < 0 {
				return i, j, false
			}
		}
	}
	return 0, 0, true
}

// classify counts which clamp branch every node of the vector takes according
// to the documented formula (coverage only, never an oracle).
func (r *c25Run) classify(ws []*big.Int, thr int) {
	var valid int64
	total, minW, maxW := new(big.Int), (*big.Int)(nil), new(big.Int)
	for _, w := range ws {
		if w.Sign() == 0 {
			continue
		}
		valid++
		if minW == nil || w.Cmp(minW) < 0 {
			minW = w
		}
		if w.Cmp(maxW) > 0 {
			maxW = w
		}
		total.Add(total, w)
	}
	if int(valid) < thr || valid < 3 {
		return
	}
	total.Sub(total, minW).Sub(total, maxW)
	avg := total.Div(total, big.NewInt(valid-2))
	upper := new(big.Int).Mul(avg, big.NewInt(7))
	lower := new(big.Int).Div(avg, big.NewInt(7))
	for _, w := range ws {
		switch {
		case w.Cmp(upper) >= 0:
			r.branch[0].Add(1)
		case w.Cmp(avg) >= 0:
			r.branch[1].Add(1)
		case w.Cmp(lower) <= 0:
			r.branch[2].Add(1)
		default:
			r.branch[3].Add(1)
		}
	}
}

// eval runs one work vector: the full transaction construction on the batch
// nodes of the context selected by the bit mask `builds`, and the distribution function itself
// with every kernel base.
func (r *c25Run) eval(x *c25Ctx, mode int, vals []uint64, builds uint) {
	c := r.c
	n := len(vals)
	works := make([][2]uint64, n)
	ws := make([]*big.Int, n)
	valid := 0
	for i, v := range vals {
		works[i] = c25Pair(mode, i, v)
		ws[i] = c25Weight(works[i])
		if ws[i].Sign() > 0 {
			valid++
		}
	}
	if c.Distinct(fmt.Sprintf("vec|%d|%d|%v", n, mode, vals)) {
		r.classify(ws, x.b[0].thr)
	}
	cs := c25Case{N: n, Mode: c25Modes[mode], Values: append([]uint64{}, vals...), Ready: [2]int{n, n}}
	for i, b := range x.b {
		if builds&(1<<uint(i)) == 0 {
			continue
		}
		b.st.prev = works
		cs.Batch = b.batch
		r.build(b, cs, ws, valid, n, n)
	}
	x.b[0].st.prev = works
	cs.Batch = x.b[0].batch
	for _, base := range r.bases {
		r.direct(x.b[0], cs, base, ws, valid)
	}
}

// build calls the real buildUniversalMintTransaction and applies the statement.
func (r *c25Run) build(b *c25Batch, cs c25Case, ws []*big.Int, valid, readyW, readyS int) *common.VersionedTransaction {
	c := r.c
	n := len(ws)
	node := b.m.Node
	bucket := c25Bucket(b.amount)
	key := func(what string) string {
		if bucket == "tiny" {
			return what + ":amt=tiny"
		}
		return what
	}
	var tx *common.VersionedTransaction
	p, site := c25CatchSite(func() { tx = node.buildUniversalMintTransaction(b.cust, b.ts, b.validate) })
	c.Eval(1)
	pre := valid >= b.thr && readyW >= b.thr && readyS >= b.thr && readyW == readyS
	if p != nil {
		if pre {
			c.Outcome("panic")
			c.Violation(key("dist:panic:"+c25Frame(site)), fmt.Sprintf("buildUniversalMintTransaction panics (%v at %s) with valid=%d >= threshold=%d, n=%d, batch %d amount %s units", p, site, valid, b.thr, n, b.batch, b.amount), cs)
		} else {
			c.Outcome("panic:precondition-false")
			c.Add("obs_panic_while_precondition_false", 1)
		}
		return nil
	}
	if tx == nil {
		switch {
		case valid < b.thr:
			c.Outcome("nomint:valid<threshold")
		case !pre:
			c.Outcome("nomint:aggregators-not-ready")
		default:
			// >= threshold nodes have positive work (1.2*lead+sign) and the
			// aggregators are ready, yet the distribution is refused: some node's
			// work is valued as zero (more work, less reward — here: no reward)
			c.Outcome("nomint:refused-with-enough-work")
			c.Violation(key("dist:refused-with-enough-work"), fmt.Sprintf("no mint transaction although %d >= threshold %d nodes have positive work and the aggregators are ready (n=%d batch %d): a node with work is treated as idle", valid, b.thr, n, b.batch), cs)
		}
		return nil
	}
	if !pre {
		// minting without the code's own precondition is outside the statement
		c.Outcome("mint:without-precondition")
		c.Add("obs_mint_without_precondition", 1)
	} else {
		c.Outcome("mint:ok")
	}
	if len(tx.Outputs) != n+2 || len(tx.Inputs) != 1 || tx.Inputs[0].Mint == nil {
		c.Violation(key("tx:shape"), fmt.Sprintf("mint transaction has %d outputs for %d nodes", len(tx.Outputs), n), cs)
		return tx
	}
	if in := c25Units(tx.Inputs[0].Mint.Amount); in.Cmp(b.amount) != 0 || tx.Inputs[0].Mint.Batch != b.batch {
		c.Violation(key("tx:input-amount"), fmt.Sprintf("mint input is batch %d amount %s, the batch amount of %d is %s", tx.Inputs[0].Mint.Batch, in, b.batch, b.amount), cs)
	}
	outs := make([]*big.Int, n+2)
	sum, kernel := new(big.Int), new(big.Int)
	for i, o := range tx.Outputs {
		outs[i] = c25Units(o.Amount)
		sum.Add(sum, outs[i])
		if i < n {
			kernel.Add(kernel, outs[i])
		}
		if outs[i].Sign() <= 0 {
			c.Violation(key("dist:nonpositive-output"), fmt.Sprintf("output %d of %d is %s units (n=%d batch %d amount %s)", i, n+2, outs[i], n, b.batch, b.amount), cs)
		}
	}
	if sum.Cmp(b.amount) != 0 {
		c.Violation(key("dist:sum"), fmt.Sprintf("outputs sum to %s units, batch amount is %s (n=%d batch %d)", sum, b.amount, n, b.batch), cs)
	}
	if new(big.Int).Lsh(kernel, 1).Cmp(b.amount) > 0 {
		c.Violation(key("dist:kernel-share"), fmt.Sprintf("kernel nodes receive %s of %s units, more than half", kernel, b.amount), cs)
	}
	wantSafe := new(big.Int).Div(b.amount, big.NewInt(10))
	wantSafe.Mul(wantSafe, big.NewInt(4))
	if outs[n].Cmp(wantSafe) != 0 {
		c.Violation(key("dist:custodian-share"), fmt.Sprintf("custodian receives %s units, 4*floor(amount/10) is %s (amount %s, batch %d)", outs[n], wantSafe, b.amount, b.batch), cs)
	}
	if i, j, ok := c25Monotone(ws, outs[:n]); !ok {
		c.Violation(key("dist:monotone"), fmt.Sprintf("node %d has work %s >= node %d work %s but receives %s < %s (n=%d batch %d)", i, ws[i], j, ws[j], outs[i], outs[j], n, b.batch), cs)
	}
	if valid == n && pre && r.sampled.Add(1) <= 6 {
		c.Sample(map[string]any{"case": cs, "amount_units": b.amount.String(), "outputs_units": fmt.Sprint(outs)})
	}
	return tx
}

// direct calls distributeKernelMintByWorks itself with one kernel base.
func (r *c25Run) direct(b *c25Batch, cs c25Case, base common.Integer, ws []*big.Int, valid int) {
	c := r.c
	n := len(ws)
	cs.Base = base.String()
	bu := c25Units(base)
	key := func(what string) string {
		if bu.Cmp(big.NewInt(c25TinyUnits)) < 0 {
			return what + ":amt=tiny"
		}
		return what
	}
	var mints []*CNodeWork
	var err error
	p, site := c25CatchSite(func() { mints, err = b.m.Node.distributeKernelMintByWorks(b.acc, base, b.ts) })
	c.Eval(1)
	if p != nil {
		if valid >= b.thr {
			c.Outcome("direct:panic")
			c.Violation(key("distribute:panic:"+c25Frame(site)), fmt.Sprintf("distributeKernelMintByWorks panics (%v at %s) with valid=%d >= threshold=%d n=%d base %s", p, site, valid, b.thr, n, cs.Base), cs)
		}
		return
	}
	if err != nil {
		if valid >= b.thr {
			c.Outcome("direct:refused-with-enough-work")
			c.Violation(key("distribute:refused-with-enough-work"), fmt.Sprintf("distributeKernelMintByWorks refuses (%v) although %d >= threshold %d nodes have positive work (n=%d)", err, valid, b.thr, n), cs)
		} else {
			c.Outcome("direct:error:valid<threshold")
		}
		return
	}
	c.Outcome("direct:ok")
	if len(mints) != n {
		c.Violation(key("distribute:shape"), fmt.Sprintf("%d shares for %d nodes", len(mints), n), cs)
		return
	}
	outs := make([]*big.Int, n)
	sum := new(big.Int)
	for i, m := range mints {
		if m.IdForNetwork != b.acc[i].IdForNetwork {
			c.Require(false, "distribute reorders nodes")
		}
		outs[i] = c25Units(m.Work)
		sum.Add(sum, outs[i])
		if outs[i].Sign() <= 0 {
			c.Violation(key("distribute:nonpositive-share"), fmt.Sprintf("share %d of n=%d is %s units of kernel base %s", i, n, outs[i], cs.Base), cs)
		}
	}
	if sum.Cmp(bu) > 0 {
		c.Violation(key("distribute:sum-exceeds-base"), fmt.Sprintf("shares sum to %s units, base (the kernel half) is %s", sum, bu), cs)
	}
	if i, j, ok := c25Monotone(ws, outs); !ok {
		c.Violation(key("distribute:monotone"), fmt.Sprintf("node %d work %s >= node %d work %s but share %s < %s (base %s)", i, ws[i], j, ws[j], outs[i], outs[j], cs.Base), cs)
	}
}

// c25CatchSite runs f; on panic it returns the value and the function that
// panicked (first frame below runtime.panic), independent of where the
// repository tree lives on disk.
func c25CatchSite(f func()) (p any, site string) {
	defer func() {
		if r := recover(); r != nil {
			p = r
			buf := make([]byte, 16384)
			lines := strings.Split(string(buf[:runtime.Stack(buf, false)]), "\n")
			seen := false
			for _, l := range lines {
				if strings.HasPrefix(l, "\t") || l == "" {
					continue
				}
				if strings.HasPrefix(l, "panic(") {
					seen = true
					continue
				}
				if seen {
					if strings.HasPrefix(l, "runtime.") {
						continue
					}
					if j := strings.LastIndex(l, "("); j > 0 {
						l = l[:j]
					}
					if j := strings.LastIndex(l, "/"); j >= 0 {
						l = l[j+1:]
					}
					site = l
					break
				}
			}
		}
	}()
	f()
	return nil, ""
}

// c25Frame shortens "common.Integer.Add" to "Integer.Add".
func c25Frame(site string) string {
	if i := strings.Index(site, "."); i >= 0 && !strings.Contains(site, "(") {
		return site[i+1:]
	}
	return site
}

// c25Canon completes a used-value mask to the first size-k sub-menu containing it.
func c25Canon(used uint, k, menu int) uint {
	for i := 0; i < menu && bits.OnesCount(used) < k; i++ {
		used |= 1 << uint(i)
	}
	return used
}

// ---------------------------------------------------------------- schedule

func c25Schedule(c *verifmc.Check) int {
	const years = 300
	horizon := MintYearDays * years
	vals := make([]*big.Int, horizon+1)
	sites := make([]string, horizon+1)
	swept := make([]bool, years+1) // year jobs that ran to their end
	complete := c.ParallelN(years+1, "schedule singles", func(_, y int) {
		defer func() { swept[y] = true }()
		for b := y * MintYearDays; b < (y+1)*MintYearDays && b <= horizon; b++ {
			if b == 0 {
				continue
			}
			var v common.Integer
			p, site := c25CatchSite(func() { v = mintBatchSize(uint64(b)) })
			c.Eval(1)
			if p != nil {
				sites[b] = fmt.Sprintf("%v at %s", p, site)
				continue
			}
			vals[b] = c25Units(v)
		}
	})
	// every oracle below relates several batches (first panic, monotonicity,
	// running sum, window sums): it is only evaluated over the contiguous prefix
	// of the sweep that was actually executed. A sweep cut by the wall-clock cap
	// leaves holes; a hole is "not computed", never "panics".
	if !complete {
		done := 0
		for done <= years && swept[done] {
			done++
		}
		horizon = done*MintYearDays - 1
		if horizon > MintYearDays*years {
			horizon = MintYearDays * years
		}
		c.Set("schedule_sweep_cut_after_batch", horizon)
		if horizon < 1 {
			return 0
		}
	}
	pool := c25Units(MintPool)
	defined := horizon
	for b := 1; b <= horizon; b++ {
		if vals[b] == nil {
			defined = b - 1
			break
		}
	}
	if defined < horizon {
		// observation outside the property's claim: the code's own horizon guard
		// is 10 000 years, but the pool subtraction stops working much earlier
		c.Set("obs_mintBatchSize_first_panicking_batch", defined+1)
		c.Set("obs_mintBatchSize_first_panicking_year", (defined+1)/MintYearDays)
		c.Set("obs_mintBatchSize_panic", sites[defined+1])
		c.Outcome("sched:panic-beyond-schedule")
		for b := defined + 1; b <= horizon; b++ {
			if vals[b] != nil {
				c.Violation("sched:defined-after-panic", fmt.Sprintf("mintBatchSize(%d) panics but mintBatchSize(%d) returns", defined+1, b), map[string]any{"batch": b})
				break
			}
		}
	}
	cum := new(big.Int)
	lastPositive := 0
	for b := 1; b <= defined; b++ {
		c.Distinct(fmt.Sprintf("single|%d", b))
		if vals[b].Sign() > 0 {
			lastPositive = b
			c.Outcome("sched:positive")
		} else if vals[b].Sign() == 0 {
			c.Outcome("sched:zero")
		} else {
			c.Violation("sched:negative", fmt.Sprintf("mintBatchSize(%d) = %s", b, vals[b]), map[string]any{"batch": b})
		}
		cum.Add(cum, vals[b])
		if cum.Cmp(pool) > 0 {
			c.Violation("sched:cumulative-exceeds-pool", fmt.Sprintf("batches 1..%d sum to %s units > pool %s", b, cum, pool), map[string]any{"batch": b})
		}
		if b == 1 {
			continue
		}
		if vals[b].Cmp(vals[b-1]) > 0 {
			c.Violation("sched:increase", fmt.Sprintf("mintBatchSize(%d)=%s > mintBatchSize(%d)=%s", b, vals[b], b-1, vals[b-1]), map[string]any{"batch": b})
		}
		if b/MintYearDays == (b-1)/MintYearDays && vals[b].Cmp(vals[b-1]) != 0 {
			c.Violation("sched:not-constant-in-year", fmt.Sprintf("mintBatchSize(%d)=%s != mintBatchSize(%d)=%s in year %d", b, vals[b], b-1, vals[b-1], b/MintYearDays), map[string]any{"batch": b})
		}
	}
	c.Set("schedule_batches_defined", defined)
	c.Set("schedule_last_positive_batch", lastPositive)
	c.Set("schedule_last_positive_year", lastPositive/MintYearDays)
	c.Set("schedule_cumulative_units", cum.String())
	c.Set("schedule_pool_units", pool.String())
	if complete {
		c.Require(lastPositive > 2*KernelNetworkLegacyEnding, "positive schedule too short: %d", lastPositive)
		c.Require(defined > lastPositive, "no zero tail reached inside the horizon (defined %d, last positive %d)", defined, lastPositive)
	}

	if c.Thorough() {
		// first and last batch of every year up to the code's own horizon
		const far = 10000
		first := make([]*big.Int, far+2)
		last := make([]*big.Int, far+2)
		farDone := c.ParallelN(far+2-years, "schedule far years", func(_, k int) {
			y := years + k
			for e, b := range []uint64{uint64(y) * MintYearDays, uint64(y)*MintYearDays + MintYearDays - 1} {
				var v common.Integer
				p := verifmc.Catch(func() { v = mintBatchSize(b) })
				c.Eval(1)
				c.Distinct(fmt.Sprintf("single|%d", b))
				if p != nil {
					c.Outcome("sched:far-panic")
					continue
				}
				c.Outcome("sched:far-value")
				if e == 0 {
					first[y] = c25Units(v)
				} else {
					last[y] = c25Units(v)
				}
			}
		})
		prev := vals[defined]
		for y := years; farDone && complete && y <= far+1; y++ {
			for _, v := range []*big.Int{first[y], last[y]} {
				if v == nil {
					continue
				}
				if prev != nil && v.Cmp(prev) > 0 {
					c.Violation("sched:increase", fmt.Sprintf("year %d batch size %s > earlier %s", y, v, prev), map[string]any{"year": y})
				}
				prev = v
			}
			if first[y] != nil && last[y] != nil && first[y].Cmp(last[y]) != 0 {
				c.Violation("sched:not-constant-in-year", fmt.Sprintf("year %d: first %s last %s", y, first[y], last[y]), map[string]any{"year": y})
			}
		}
	}

	// multi-batch windows
	prefix := make([]*big.Int, defined+1)
	prefix[0] = new(big.Int)
	for b := 1; b <= defined; b++ {
		prefix[b] = new(big.Int).Add(prefix[b-1], vals[b])
	}
	w := verifmc.Pick(c, 20, 40)
	type window struct{ lo, hi int }
	var wins []window
	wins = append(wins, window{0, 2 * w}, window{KernelNetworkLegacyEnding - w, KernelNetworkLegacyEnding + w})
	lastYear := lastPositive/MintYearDays + 1 // the boundary into the zero tail is included
	var boundaries []int
	for y := 1; y <= lastYear; y++ {
		// quick: every boundary of the first 60 years, every 6th afterwards and
		// the last three (incl. the one into the zero tail); thorough: all
		if !c.Thorough() && y > 60 && y%6 != 0 && y < lastYear-2 {
			continue
		}
		boundaries = append(boundaries, y)
		lo, hi := y*MintYearDays-w, y*MintYearDays+w
		if hi > defined {
			hi = defined
		}
		wins = append(wins, window{lo, hi})
	}
	// clip every window to the batches whose single amounts are known
	kept := wins[:0]
	for _, win := range wins {
		if win.hi > defined {
			win.hi = defined
		}
		if win.lo >= 0 && win.lo < win.hi {
			kept = append(kept, win)
		}
	}
	wins = kept
	c.Set("multi_windows", len(wins))
	c.Set("multi_year_boundaries", boundaries)
	c.Set("multi_window_half_width", w)
	complete = c.ParallelN(len(wins), "multi windows", func(_, wi int) {
		win := wins[wi]
		for o := win.lo; o < win.hi; o++ {
			for b := o + 1; b <= win.hi && b-o <= 40; b++ {
				if !c.Distinct(fmt.Sprintf("multi|%d|%d", o, b)) {
					continue
				}
				var got common.Integer
				p, site := c25CatchSite(func() { got = mintMultiBatchesSize(uint64(o), uint64(b)) })
				c.Eval(1)
				want := new(big.Int).Sub(prefix[b], prefix[o])
				rep := map[string]any{"old": o, "batch": b}
				if b > lastPositive {
					// reaches the zero tail: the statement's claim is about minted
					// amounts; a refusal here is recorded, not raised
					if p != nil {
						c.Outcome("multi:zero-tail-panic")
						c.Set("obs_multi_zero_tail_panic", fmt.Sprintf("mintMultiBatchesSize(%d,%d): %v at %s", o, b, p, site))
						continue
					}
					c.Outcome("multi:zero-tail-value")
				} else if p != nil {
					c.Outcome("multi:panic")
					c.Violation("multi:panic", fmt.Sprintf("mintMultiBatchesSize(%d,%d) panics inside the positive schedule: %v at %s", o, b, p, site), rep)
					continue
				} else if o/MintYearDays != (b)/MintYearDays {
					c.Outcome("multi:across-year")
				} else {
					c.Outcome("multi:within-year")
				}
				if g := c25Units(got); g.Cmp(want) != 0 {
					c.Violation("multi:sum-mismatch", fmt.Sprintf("mintMultiBatchesSize(%d,%d) = %s units, sum of the single batches = %s", o, b, g, want), rep)
				}
			}
		}
	})
	if complete {
		c.Require(c.OutcomeCount("multi:across-year") > 1000 && c.OutcomeCount("multi:within-year") > 1000, "multi-batch windows vacuous")
	}
	return lastPositive
}

// ---------------------------------------------------------------- tie to the real store

// c25Tie injects one work vector through the real WriteRoundWork /
// WriteRoundSpaceAndState path, runs the real construction on the unwrapped
// store, and requires the wrapper fed with the values read back from the real
// readers to produce the identical transaction.
func (r *c25Run) tie(n int) {
	c := r.c
	b, err := c25NewBatch(KernelNetworkLegacyEnding + 1)
	if err != nil {
		c.Require(false, "tie fixture: %v", err)
		return
	}
	defer b.m.Close()
	b.install(n)
	store := b.m.Store
	ids := make([]crypto.Hash, n)
	for i, cn := range b.acc {
		ids[i] = cn.IdForNetwork
	}
	active := n - 1 // the last node never works
	mk := func(round uint64, ts uint64, i, count int, signers []crypto.Hash) []*common.SnapshotWork {
		out := make([]*common.SnapshotWork, count)
		for k := range out {
			out[k] = &common.SnapshotWork{Timestamp: ts + uint64(k), Hash: crypto.Blake3Hash(fmt.Appendf(nil, "c25|%d|%d|%d|%d", n, round, i, k)), Signers: signers}
		}
		return out
	}
	yesterday := b.m.Node.Epoch + (b.batch-1)*OneDay + 12*uint64(time.Hour)
	for i := 0; i < active; i++ {
		signers := []crypto.Hash{ids[i], ids[(i+1)%active], ids[(i+2)%active]}
		if err := store.WriteRoundWork(ids[i], 0, mk(0, yesterday, i, 1+i%3, signers), true); err != nil {
			c.Require(false, "tie WriteRoundWork: %v", err)
			return
		}
	}
	for i := 0; i < active; i++ {
		if err := store.WriteRoundWork(ids[i], 1, mk(1, b.ts-uint64(time.Hour), i, 1, []crypto.Hash{ids[i]}), true); err != nil {
			c.Require(false, "tie WriteRoundWork today: %v", err)
			return
		}
		if err := store.WriteRoundSpaceAndState(&common.RoundSpace{NodeId: ids[i], Batch: b.batch, Round: 1}); err != nil {
			c.Require(false, "tie WriteRoundSpaceAndState: %v", err)
			return
		}
	}
	prev, err1 := store.ListNodeWorks(ids, b.st.day-1)
	today, err2 := store.ListNodeWorks(ids, b.st.day)
	ck, err3 := store.ListAggregatedRoundSpaceCheckpoints(ids)
	if err1 != nil || err2 != nil || err3 != nil {
		c.Require(false, "tie readers: %v %v %v", err1, err2, err3)
		return
	}
	works := make([][2]uint64, n)
	ws := make([]*big.Int, n)
	vals := make([]uint64, 0, 2*n)
	valid := 0
	b.st.today = make([][2]uint64, n)
	b.st.ckpt = make([]uint64, n)
	for i, id := range ids {
		works[i] = prev[id]
		ws[i] = c25Weight(works[i])
		if ws[i].Sign() > 0 {
			valid++
		}
		vals = append(vals, works[i][0], works[i][1])
		b.st.today[i] = today[id]
		b.st.ckpt[i] = ck[id].Batch
	}
	b.st.prev = works
	cs := c25Case{N: n, Mode: "real-store(lead,sign pairs)", Values: vals, Batch: b.batch, Ready: [2]int{active, active}}
	b.m.Node.persistStore = store // the real store, no wrapper
	txReal := r.build(b, cs, ws, valid, active, active)
	b.m.Node.persistStore = b.st
	cs.Mode = "wrapper(lead,sign pairs)"
	txWrap := r.build(b, cs, ws, valid, active, active)
	c.Require(valid == active && txReal != nil && txWrap != nil, "tie n=%d: no transaction (valid %d)", n, valid)
	if txReal != nil && txWrap != nil {
		c.Require(txReal.PayloadHash() == txWrap.PayloadHash(), "tie n=%d: wrapper and real store disagree", n)
		c.Add("tie_real_store_vectors", 1)
	}
}

// ---------------------------------------------------------------- history

// c25HistoryCases: gaps j (skipped days) x batch positions: from the built-in
// legacy ending, inside a year, straddling the year boundaries 1825 and 2190,
// right after a boundary, and in the far tail.
func c25HistoryCases() [][2]uint64 {
	var out [][2]uint64
	for _, j := range []uint64{0, 1, 2, 5} {
		for _, b := range []uint64{KernelNetworkLegacyEnding + 1 + j, 1824, 1825 + j/2, 1825 + j + 1, 2190 + j/2, 60000} {
			out = append(out, [2]uint64{j, b})
		}
	}
	return out
}

// history runs one sequence on a fresh node: the last finalized mint is
// batch-j-1; the (j+1)-batch mint of `batch` is built by the real code, locked
// and finalized through the real LockMintInput / WriteTransaction /
// WriteSnapshot path; afterwards the same batch is evaluated again in
// validate-only mode (what validateMintSnapshot does) and must still be the
// recorded amount = the sum of the per-batch schedule amounts.
func (r *c25Run) history(j, batch uint64) {
	c := r.c
	b, err := c25NewBatchGap(batch, j)
	if err != nil {
		c.Require(false, "history fixture j=%d batch=%d: %v", j, batch, err)
		return
	}
	defer b.m.Close()
	node := b.m.Node
	vals := []uint64{10, 70, 2, 10, 1, 71, 10}
	works := make([][2]uint64, 7)
	ws := make([]*big.Int, 7)
	for i, v := range vals {
		works[i] = c25Pair(4, i, v)
		ws[i] = c25Weight(works[i])
	}
	b.st.prev = works
	cs := c25Case{N: 7, Mode: "mix", Values: vals, Batch: batch, Ready: [2]int{7, 7}, Gap: j}
	c.Distinct(fmt.Sprintf("hist|%d|%d", j, batch))
	key := func(what string) string {
		if c25Bucket(b.amount) == "tiny" {
			return what + ":amt=tiny"
		}
		return what
	}
	possibility := func(ts uint64, validate bool) (uint64, *big.Int, any) {
		var bb uint64
		var a common.Integer
		p := verifmc.Catch(func() { bb, a = node.checkUniversalMintPossibility(ts, validate) })
		c.Eval(1)
		if p != nil {
			return 0, nil, p
		}
		return bb, c25Units(a), nil
	}
	// 1. fresh: both evaluations give the sum of the skipped batches
	for _, validate := range []bool{false, true} {
		cs.Step = fmt.Sprintf("fresh(validateOnly=%v)", validate)
		bb, a, p := possibility(b.ts, validate)
		if p != nil || bb != batch || a.Cmp(b.amount) != 0 {
			c.Violation(key("history:fresh-amount"), fmt.Sprintf("mint of batch %d after %d skipped batches: checkUniversalMintPossibility(validateOnly=%v) = (%d, %v units, panic %v), the sum of the batches is %s", batch, j, validate, bb, a, p, b.amount), cs)
		}
	}
	cs.Step = "build"
	tx := r.build(b, cs, ws, 7, 7, 7)
	if tx == nil {
		c.Outcome("history:no-mint")
		return
	}
	// 2. record it through the real store path
	if _, err := b.m.Store.VerifFinalize(mcNet7.NodeIds[0], b.ts, true, tx); err != nil {
		c.Require(false, "history finalize j=%d batch=%d: %v", j, batch, err)
		return
	}
	dist := node.lastMintDistribution()
	recorded := c25Units(dist.Amount)
	if dist.Batch != batch || recorded.Cmp(b.amount) != 0 {
		c.Violation(key("history:recorded-amount"), fmt.Sprintf("recorded distribution is batch %d amount %s, minted batch %d sum %s", dist.Batch, recorded, batch, b.amount), cs)
	}
	// 3. later in the same mint window
	later := b.ts + uint64(30*time.Minute)
	cs.Step = "again(validateOnly=false)"
	if bb, a, p := possibility(later, false); p != nil || bb != 0 || a.Sign() != 0 {
		c.Violation(key("history:same-batch-minted-twice"), fmt.Sprintf("batch %d is already distributed but is offered again: (%d, %v units, panic %v)", batch, bb, a, p), cs)
	}
	cs.Step = "again(validateOnly=true)"
	bb, a, p := possibility(later, true)
	if p != nil || bb != batch || a.Cmp(recorded) != 0 || a.Cmp(b.amount) != 0 {
		c.Violation(key("history:validate-amount"), fmt.Sprintf("re-validation of the recorded %d-batch mint of batch %d yields (%d, %v units, panic %v); recorded %s, sum of the batches %s", j+1, batch, bb, a, p, recorded, b.amount), cs)
	}
	// 4. the rebuilt transaction: statement oracle against the sum, and identity
	b.ts, b.validate = later, true
	cs.Step = "rebuild(validateOnly=true)"
	re := r.build(b, cs, ws, 7, 7, 7)
	if re == nil {
		c.Outcome("history:no-rebuild")
		c.Violation(key("history:rebuild-refused"), fmt.Sprintf("recorded mint of batch %d can not be rebuilt for validation", batch), cs)
		return
	}
	if re.PayloadHash() != tx.PayloadHash() {
		c.Violation(key("history:rebuilt-mint-differs"), fmt.Sprintf("the mint rebuilt for validation of batch %d (%d batches) differs from the recorded one: input %s vs %s units", batch, j+1, c25Units(re.Inputs[0].Mint.Amount), c25Units(tx.Inputs[0].Mint.Amount)), cs)
	}
	if j == 0 {
		c.Outcome("history:single-batch-validated")
	} else {
		c.Outcome("history:multi-batch-validated")
	}
}

// ---------------------------------------------------------------- the check

func TestMC_C25(t *testing.T) {
	c := verifmc.Start(t, "C25", "exploration")
	defer c.Finish()
	// the checked code allocates a short-lived big.Int per arithmetic step;
	// fewer collections, same results
	defer debug.SetGCPercent(debug.SetGCPercent(400))
	c.SetRule("schedule: every batch 1..109500 (thorough: plus first/last batch of every year up to 10001) and every (old,batch) pair with batch-old<=40 inside a window of +-W batches (W=20 quick, 40 thorough) around batch 0+W, the legacy ending 1706 and every year boundary of the positive schedule incl. the boundary into the zero tail (quick: boundaries 1..60, every 6th later one and the last three). " +
		"distribution: n=7: every assignment of one menu value per node using at most 3 distinct values of the 8-value menu (= all 3^7 assignments of every one of the C(8,3) sub-menus, each vector evaluated once); n in {8,9,10,25,50}: every vector that is constant (each menu value) except on nodes {0,n/2,n-1}, which take every value of the deviant menu. " +
		"Each vector runs under each (lead,sign) mapping mode (lead=(v,0) sign=(0,v) both=(v,v) alt=even nodes lead, odd nodes sign, mix=node i%4: (v,0) leader only,(0,v) signer only,(v,v),(v,2v); quick: mix only) through distributeKernelMintByWorks with 4 kernel bases and through buildUniversalMintTransaction at the batch amounts of 1707, 2000 and 60000 (quick: n=7 vectors with exactly 3 distinct values go through distributeKernelMintByWorks only; all n=7 vectors with <=2 distinct values and all n>7 vectors are also built at the three batches, n>=25 at 1707 and 60000 only). history: for every gap j in {0,1,2,5} skipped batches x 6 batch positions (from the legacy ending, inside a year, straddling 1825 and 2190, right after 1825, 60000): fresh evaluation, real build, real lock+finalize, then re-evaluation and rebuild in validate-only mode. A case is distinct by (n, mode, vector), (old,batch), batch or (gap,batch)")
	c.Assume("the store wrapper answers ListNodeWorks (mint day and the day before), ListAggregatedRoundSpaceCheckpoints and ReadNodeRoundSpacesForBatch from the enumerated vector; every other store call reaches the real Badger store (the wrapper is tied to the real WriteRoundWork / WriteRoundSpaceAndState path once per n)",
		"memberships n>7 are installed into the node's state lists (as kernel/removal_consensus_test.go does), not built by pledge/accept transactions",
		"a node's work is 1.2*lead+sign (the documented weighting); the batch amount is mintBatchSize(batch) because the last finalized mint in the real store is batch-1",
		"aggregator readiness (enough lead work today, matching space checkpoints) and valid >= threshold are the code's own precondition for minting; refusals outside it are outcomes, not violations")

	t0 := time.Now()
	phases := map[string]float64{}
	phase := func(name string) {
		phases[name] = float64(int(time.Since(t0).Seconds()*10)) / 10
		c.Set("phase_end_wall_s", phases)
	}
	lastPositive := c25Schedule(c)
	phase("1-schedule")
	complete := !c.Expired("schedule")
	// coverage / vacuity guards only speak about a run that was not cut short
	guard := func(cond bool, format string, args ...any) {
		if complete {
			c.Require(cond, format, args...)
		}
	}

	r := &c25Run{c: c}
	menu := []uint64{0, 1, 2, 10, 70, 71, 1000000, 1 << 40}
	deviants := verifmc.Pick(c, []uint64{0, 1, 70, 1 << 40}, menu)
	modes := verifmc.Pick(c, []int{4}, []int{0, 1, 2, 3, 4})
	batches := []uint64{KernelNetworkLegacyEnding + 1, 2000, 60000}
	ns := []int{8, 9, 10, 25, 50}
	c.Set("menu", menu)
	c.Set("deviant_menu_n>7", deviants)
	c.Set("batches", batches)
	c.Set("memberships", append([]int{7}, ns...))
	var modeNames []string
	for _, m := range modes {
		modeNames = append(modeNames, c25Modes[m])
	}
	c.Set("modes", modeNames)

	workers := c.Workers()
	ctxs := make([]*c25Ctx, workers)
	c.ParallelN(workers, "fixtures", func(_, i int) {
		x, err := c25NewCtx(batches)
		if err != nil {
			c.Require(false, "fixture: %v", err)
			return
		}
		ctxs[i] = x
	})
	for _, x := range ctxs {
		if x == nil {
			// either the wall-clock cap cut the fixture loop (nothing more to do,
			// the run is reported exhaustive:false) or a fixture error was recorded
			c.Expired("fixtures")
			for _, y := range ctxs {
				if y != nil {
					y.close()
				}
			}
			return
		}
	}
	defer func() {
		for _, x := range ctxs {
			x.close()
		}
	}()
	phase("2-fixtures")
	var amounts []string
	r.bases = []common.Integer{common.NewInteger(10000)}
	for _, bn := range batches {
		a := mintBatchSize(bn)
		amounts = append(amounts, c25Units(a).String())
		r.bases = append(r.bases, a.Div(10).Mul(5))
	}
	c.Set("batch_amounts_units", amounts)
	var bs []string
	for _, b := range r.bases {
		bs = append(bs, b.String())
	}
	c.Set("direct_kernel_bases", bs)
	c.Require(ctxs[0].b[0].thr == 5 && len(ctxs[0].b[0].acc) == 7, "unexpected 7-node fixture: thr %d n %d", ctxs[0].b[0].thr, len(ctxs[0].b[0].acc))

	// which store methods does the construction reach? (strict store: anything
	// else is a nil dereference)
	{
		b := ctxs[0].b[0]
		b.st.prev = [][2]uint64{{2, 10}, {2, 10}, {2, 10}, {2, 10}, {2, 10}, {2, 10}, {2, 10}}
		strict := &c25Strict{w: b.st, real: b.m.Store, calls: map[string]int{}}
		b.m.Node.persistStore = strict
		var tx *common.VersionedTransaction
		p := verifmc.Catch(func() { tx = b.m.Node.buildUniversalMintTransaction(b.cust, b.ts, false) })
		b.m.Node.persistStore = b.st
		c.Require(p == nil && tx != nil, "mint construction reaches a store method outside the modelled five: %v", p)
		c.Set("store_methods_reached", strict.calls)
	}

	// one vector per n through the real WriteRoundWork path
	for _, n := range append([]int{7}, ns...) {
		r.tie(n)
	}

	// history: multi-batch mint recorded, then validated again
	{
		hc := c25HistoryCases()
		c.Set("history_cases_gap_batch", hc)
		complete = c.ParallelN(len(hc), "history", func(_, i int) { r.history(hc[i][0], hc[i][1]) }) && complete
		guard(c.OutcomeCount("history:single-batch-validated") == 6 && c.OutcomeCount("history:multi-batch-validated") == 18 || c.Violations() > 0,
			"history sequences did not complete: single %d multi %d", c.OutcomeCount("history:single-batch-validated"), c.OutcomeCount("history:multi-batch-validated"))
	}

	phase("3-tie+history")
	// readiness of the aggregators (the code's own precondition): first k nodes
	// have lead work today, first j nodes have a space checkpoint at the batch
	{
		x := ctxs[0]
		vals := []uint64{2, 10, 2, 10, 70, 2, 10}
		works := make([][2]uint64, 7)
		ws := make([]*big.Int, 7)
		for i, v := range vals {
			works[i] = c25Pair(2, i, v)
			ws[i] = c25Weight(works[i])
		}
		for k := 0; k <= 7; k++ {
			for j := 0; j <= 7; j++ {
				for _, b := range x.b {
					b.ready(k, j)
					b.st.prev = works
					c.Distinct(fmt.Sprintf("ready|%d|%d", k, j))
					r.build(b, c25Case{N: 7, Mode: "both", Values: vals, Batch: b.batch, Ready: [2]int{k, j}}, ws, 7, k, j)
					b.ready(7, 7)
				}
			}
		}
	}

	// where in the schedule does a share first become zero? (direct calls, one
	// zero-work node, everybody else equal) — n=7 and n=50
	{
		b := ctxs[0].b[0]
		for _, n := range []int{7, 50} {
			b.install(n)
			vals := make([]uint64, n)
			ws := make([]*big.Int, n)
			works := make([][2]uint64, n)
			for i := range vals {
				if i > 0 {
					vals[i] = 1
				}
				works[i] = c25Pair(2, i, vals[i])
				ws[i] = c25Weight(works[i])
			}
			b.st.prev = works
			first := 0
			for y := 100; y <= lastPositive/MintYearDays; y++ {
				base := mintBatchSize(uint64(y * MintYearDays)).Div(10).Mul(5)
				zero := false
				var mints []*CNodeWork
				p := verifmc.Catch(func() { mints, _ = b.m.Node.distributeKernelMintByWorks(b.acc, base, b.ts) })
				for _, m := range mints {
					if m.Work.Sign() <= 0 {
						zero = true
					}
				}
				if p != nil || zero {
					first = y
					c.Distinct(fmt.Sprintf("tail|%d|%d", n, y))
					r.direct(b, c25Case{N: n, Mode: "both", Values: vals, Batch: uint64(y * MintYearDays), Ready: [2]int{n, n}}, base, ws, n-1)
					break
				}
			}
			c.Set(fmt.Sprintf("obs_first_year_with_zero_share_n%d", n), first)
		}
		b.install(7)
	}

	phase("4-readiness+tail")
	// n > 7: constant background except on three nodes
	for _, n := range ns {
		for _, x := range ctxs {
			for _, b := range x.b {
				b.install(n)
			}
		}
		b0 := ctxs[0].b[0]
		c.Require(len(b0.acc) == n && b0.thr == n*2/3+1, "installed membership n=%d: accepted %d threshold %d", n, len(b0.acc), b0.thr)
		type njob struct{ mode, bg, d0 int }
		var nj []njob
		L := len(deviants)
		for _, m := range modes {
			for bg := range menu {
				for d0 := 0; d0 < L; d0++ {
					nj = append(nj, njob{m, bg, d0})
				}
			}
		}
		pos := []int{0, n / 2, n - 1}
		complete = c.ParallelN(len(nj), fmt.Sprintf("n=%d vectors", n), func(k, ji int) {
			j := nj[ji]
			vals := make([]uint64, n)
			verifmc.Product([]int{L, L}, func(d []int) bool {
				for i := range vals {
					vals[i] = menu[j.bg]
				}
				vals[pos[0]], vals[pos[1]], vals[pos[2]] = deviants[j.d0], deviants[d[0]], deviants[d[1]]
				builds := uint(1<<uint(len(batches))) - 1
				if !c.Thorough() && n >= 25 {
					builds = 1 | 1<<uint(len(batches)-1) // quick: first and last batch amount
				}
				r.eval(ctxs[k], j.mode, vals, builds)
				c.Add(fmt.Sprintf("vectors_n%d", n), 1)
				return !c.Expired("n>7 vectors")
			})
		}) && complete
	}
	for _, x := range ctxs {
		for _, b := range x.b {
			b.install(7)
		}
	}

	phase("5-n>7")
	// n = 7: every assignment over every 3-value sub-menu
	type job struct {
		mode  int
		mask  uint
		first int
	}
	var jobs []job
	for _, m := range modes {
		for mask := uint(0); mask < 1<<uint(len(menu)); mask++ {
			if bits.OnesCount(mask) == 3 {
				for f := 0; f < 3; f++ {
					jobs = append(jobs, job{m, mask, f})
				}
			}
		}
	}
	c.Set("n7_submenus", len(jobs)/len(modes)/3)
	complete = c.ParallelN(len(jobs), "n=7 vectors", func(k, ji int) {
		j := jobs[ji]
		var sub []int
		for i := range menu {
			if j.mask&(1<<uint(i)) != 0 {
				sub = append(sub, i)
			}
		}
		vals := make([]uint64, 7)
		verifmc.Product([]int{3, 3, 3, 3, 3, 3}, func(rest []int) bool {
			d := append([]int{j.first}, rest...)
			var used uint
			for _, di := range d {
				used |= 1 << uint(sub[di])
			}
			if c25Canon(used, 3, len(menu)) != j.mask {
				return true
			}
			for i, di := range d {
				vals[i] = menu[sub[di]]
			}
			builds := uint(1<<uint(len(batches))) - 1
			if !c.Thorough() && bits.OnesCount(used) == 3 {
				builds = 0 // quick: distribution function only (all 4 kernel bases)
			}
			r.eval(ctxs[k], j.mode, vals, builds)
			c.Add(fmt.Sprintf("vectors_n7_%d_distinct_values", bits.OnesCount(used)), 1)
			return !c.Expired("n=7 vectors")
		})
	}) && complete
	phase("6-n=7")
	complete = complete && !c.Expired("end")
	for _, x := range ctxs {
		for _, b := range x.b {
			c.Require(b.st.other == 0, "store wrapper saw a ListNodeWorks day it does not model")
		}
	}

	guard(c.OutcomeCount("mint:ok") > 1000 && c.OutcomeCount("nomint:valid<threshold") > 100 && c.OutcomeCount("nomint:aggregators-not-ready") > 10,
		"distribution outcomes vacuous: ok %d, valid<thr %d, not-ready %d", c.OutcomeCount("mint:ok"), c.OutcomeCount("nomint:valid<threshold"), c.OutcomeCount("nomint:aggregators-not-ready"))
	for i, k := range []string{"branch_upper_clamp", "branch_above_average", "branch_lower_clamp", "branch_identity"} {
		c.Set(k+"_nodes", r.branch[i].Load())
		guard(r.branch[i].Load() > 0, "clamp branch %s never exercised", k)
	}
}
