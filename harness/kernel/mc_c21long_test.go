//go:build verif

package kernel

import (
	"fmt"
	"sync"

	"github.com/MixinNetwork/mixin/common"
	"github.com/MixinNetwork/mixin/crypto"
	"github.com/MixinNetwork/mixin/verifmc"
)

// C21, long-window part (sequential, in-memory store).
//
// The startup repair scans the topology window between the last recorded
// consensus snapshot and the head (the repository's own bound: the most recent
// 500 entries). The base and history parts keep that window a handful of
// entries long; here its LENGTH and its transaction VOLUME are the alphabet:
//
//	A   a mint, finalized and recorded through the kernel tail (record = A)
//	g   ordinary single-transaction snapshots of other chains
//	    (or: m batch snapshots of 25 transactions each)
//	B   the next mint, finalized by WriteSnapshot, consensus record NOT written
//	    (the process stops between the two commits)
//	k   later ordinary snapshots (B is not the topology head)
//	restart: node abandoned, real SetupNode over the committed state
//
// Oracle: B lies inside the repository's repair window (head - B < 500
// entries), so after restart the last recorded consensus operation is B.
// A B outside that window would be recorded as such, not raised.
//
// The ordinary snapshots are storage-level finalizations (lock inputs, write
// transaction, WriteSnapshot on the chain's head round at the next topological
// position) of fresh custodian-signed deposits: what cosiHandleFinalization
// leaves behind, without the CoSi work that the repair scan never looks at.

type c21LongCase struct {
	Gap   int // single-transaction ordinary snapshots between A and B
	Batch int // batch snapshots (25 transactions each) between A and B
	Later int // ordinary snapshots after B
}

func (lc c21LongCase) name() string {
	if lc.Batch > 0 {
		return fmt.Sprintf("long:batch=%dx%d:later=%d", lc.Batch, c21LongBatchSize, lc.Later)
	}
	return fmt.Sprintf("long:gap=%d:later=%d", lc.Gap, lc.Later)
}

const c21LongBatchSize = 25

func c21LongCases() []c21LongCase {
	var out []c21LongCase
	for _, g := range []int{0, 1, 99, 100, 101, 102, 200, 201, 202, 301, 302, 303, 402, 403, 404, 498, 499, 500} {
		for _, k := range []int{1, 3} {
			out = append(out, c21LongCase{Gap: g, Later: k})
		}
	}
	for _, m := range []int{19, 20, 21, 25} {
		out = append(out, c21LongCase{Batch: m, Later: 1})
	}
	return out
}

type c21LongStats struct {
	mu        sync.Mutex
	repaired  int
	outside   int
	maxWindow uint64
	maxTxs    int
	harness   []string
}

// c21LongRun builds one ledger, "crashes", restarts and evaluates the oracle.
func c21LongRun(c *verifmc.Check, lc c21LongCase, st *c21LongStats) {
	fail := func(format string, a ...any) {
		st.mu.Lock()
		if len(st.harness) < 8 {
			st.harness = append(st.harness, lc.name()+": "+fmt.Sprintf(format, a...))
		}
		st.mu.Unlock()
	}
	m, err := newMCNode(mcNet7, 0, "")
	if err != nil {
		panic(err)
	}
	storeOpen, abandoned := true, false
	defer func() {
		if storeOpen && abandoned {
			_ = m.Store.Close()
		} else if storeOpen {
			m.Close()
		}
	}()
	store := m.Store
	names := &c21Names{m: map[crypto.Hash]string{}}
	g := &c21GoCtl{ctl: &c21MemCtl{}, paused: true} // no crash seam: the stop is where the script ends

	// A: finalized and recorded through the kernel tail
	dA := &c21Del{mcDelivery: mcDelivery{Name: "A", Chain: -1, Elect: common.TransactionTypeMint, TailOnly: true, TsOffset: c21TsA, Build: mcCrMint("c21-long-A")}}
	if pp := verifmc.Catch(func() { c21Deliver(m, dA, g, names) }); pp != nil {
		fail("delivery of A panicked: %v", pp)
		return
	}
	recorded, err := store.ReadLastConsensusSnapshot()
	if err != nil || recorded == nil || recorded.PayloadHash() != dA.Hash {
		fail("A is not the recorded consensus snapshot (%v)", err)
		return
	}
	recTopo, err := store.ReadSnapshot(recorded.PayloadHash())
	if err != nil || recTopo == nil {
		fail("A unreadable (%v)", err)
		return
	}
	aChain := recorded.NodeId
	var others []crypto.Hash
	for _, id := range m.Net.NodeIds {
		if id != aChain {
			others = append(others, id)
		}
	}
	ts := recorded.Timestamp
	acct := mcCrAcct()
	seq := 0
	deposit := func() *common.VersionedTransaction {
		seq++
		return m.Net.DepositBTC(fmt.Sprintf("c21-long-%d", seq), "0.001", []*common.Address{&acct}, 1)
	}
	ordinary := func(n int) error {
		ts++
		txs := make([]*common.VersionedTransaction, n)
		for i := range txs {
			txs[i] = deposit()
		}
		_, err := store.VerifFinalize(others[seq%len(others)], ts, true, txs...)
		return err
	}
	txsAhead := 0
	var buildErr error
	if pp := verifmc.Catch(func() {
		for i := 0; i < lc.Gap && buildErr == nil; i++ {
			buildErr = ordinary(1)
			txsAhead++
		}
		for i := 0; i < lc.Batch && buildErr == nil; i++ {
			buildErr = ordinary(c21LongBatchSize)
			txsAhead += c21LongBatchSize
		}
	}); pp != nil || buildErr != nil {
		fail("ordinary snapshots ahead of B: %v %v", pp, buildErr)
		return
	}
	// B: snapshot commit only
	ts++
	var snapB *common.SnapshotWithTopologicalOrder
	var txB *common.VersionedTransaction
	if pp := verifmc.Catch(func() {
		txB = mcCrMint("c21-long-B")(m, ts)[0]
		snapB, buildErr = store.VerifFinalize(aChain, ts, true, txB)
	}); pp != nil || buildErr != nil {
		fail("finalization of B: %v %v", pp, buildErr)
		return
	}
	if pp := verifmc.Catch(func() {
		for i := 0; i < lc.Later && buildErr == nil; i++ {
			buildErr = ordinary(1)
		}
	}); pp != nil || buildErr != nil {
		fail("ordinary snapshots after B: %v %v", pp, buildErr)
		return
	}
	// driver postconditions: the crash state is what the case says
	head, _ := store.LastSnapshot()
	pre, err := store.ReadLastConsensusSnapshot()
	between := snapB.TopologicalOrder - recTopo.TopologicalOrder - 1
	if err != nil || pre == nil || pre.PayloadHash() != recorded.PayloadHash() ||
		between != uint64(lc.Gap+lc.Batch) || head.TopologicalOrder != snapB.TopologicalOrder+uint64(lc.Later) {
		fail("crash state not as scripted: record %v, %d entries between A and B, head %d, B %d", pre, between, head.TopologicalOrder, snapB.TopologicalOrder)
		return
	}
	inWindow := head.TopologicalOrder-snapB.TopologicalOrder < 500

	// ---- restart ----
	m.Abandon()
	abandoned = true
	var m2 *mcNode
	var rerr error
	replay := map[string]any{"case": lc.name(), "gap": lc.Gap, "batch_snapshots": lc.Batch, "batch_size": c21LongBatchSize, "later": lc.Later}
	if pp, site := verifmc.CatchSite(func() { m2, rerr = newMCNodeOnStore(mcNet7, 0, store) }); pp != nil {
		c.Violation("long-window:restart-panicked:"+site, fmt.Sprintf("%s: SetupNode panicked after the stop between B's snapshot and its consensus record: %v", lc.name(), pp), replay)
		return
	}
	storeOpen = false
	if rerr != nil {
		c.Violation("long-window:restart-failed", fmt.Sprintf("%s: SetupNode failed after the stop between B's snapshot and its consensus record: %v", lc.name(), rerr), replay)
		return
	}
	defer m2.Close()
	post, err := store.ReadLastConsensusSnapshot()
	if err != nil || post == nil {
		c.Violation("long-window:restart-read-error", fmt.Sprint("ReadLastConsensusSnapshot: ", post, err), replay)
		return
	}
	c.Eval(1)
	c.AddStates(1)
	c.AddTraces(1)
	c.AddTrans(int64(lc.Gap + lc.Batch + lc.Later + 2))
	c.Distinct(lc.name())
	st.mu.Lock()
	if w := head.TopologicalOrder - recTopo.TopologicalOrder; w > st.maxWindow {
		st.maxWindow = w
	}
	if txsAhead > st.maxTxs {
		st.maxTxs = txsAhead
	}
	st.mu.Unlock()
	switch {
	case post.PayloadHash() == snapB.PayloadHash():
		c.Outcome("long:repaired")
		st.mu.Lock()
		st.repaired++
		st.mu.Unlock()
		if lm := m2.Node.lastMintDistribution().Batch; m2.Node.LastMint != lm {
			c.Violation("long-window:last-mint-stale", fmt.Sprintf("%s: after restart node.LastMint=%d but the stored distribution is batch %d", lc.name(), m2.Node.LastMint, lm), replay)
		}
	case !inWindow:
		c.Outcome("long:outside-the-repair-window")
		st.mu.Lock()
		st.outside++
		st.mu.Unlock()
	default:
		c.Outcome("long:marker-lost")
		key := fmt.Sprintf("long-window:single:marker-lost:gap=%d", lc.Gap)
		if lc.Batch > 0 {
			key = fmt.Sprintf("long-window:batch:marker-lost:transactions-ahead=%d", txsAhead)
		}
		c.Violation(key, fmt.Sprintf("%s: recorded mint A at topological position %d, then %d ordinary snapshots of other chains carrying %d transactions, then mint B at position %d finalized by WriteSnapshot, the process stops before B's consensus record, %d later ordinary snapshots (head %d, B is %d entries behind the head: inside the 500-entry repair window); after restart the last recorded consensus operation is %s (timestamp %d), not B %s",
			lc.name(), recTopo.TopologicalOrder, lc.Gap+lc.Batch, txsAhead, snapB.TopologicalOrder, lc.Later, head.TopologicalOrder, head.TopologicalOrder-snapB.TopologicalOrder, post.PayloadHash(), post.Timestamp, snapB.PayloadHash()), replay)
	}
}

// c21LongPart runs every case; returns false when the wall-clock cap cut it short.
func c21LongPart(c *verifmc.Check) bool {
	cases := c21LongCases()
	st := &c21LongStats{}
	done := c.ParallelN(len(cases), "long-window cases", func(_, i int) {
		if c.Expired("long-window cases") || c.Violations() > 0 {
			return // capped, or a counterexample exists already
		}
		c21LongRun(c, cases[i], st)
	})
	done = done && !c.Expired("long-window cases")
	c.Set("long_window_cases", len(cases))
	c.Set("long_window_repaired", st.repaired)
	c.Set("long_window_outside_window", st.outside)
	c.Set("long_window_max_entries_after_record", st.maxWindow)
	c.Set("long_window_max_transactions_ahead", st.maxTxs)
	for _, h := range st.harness {
		c.Require(false, "long-window part: %s", h)
	}
	if done && c.Violations() == 0 {
		c.Require(st.repaired+st.outside == len(cases), "long-window part: only %d of %d cases reached the oracle", st.repaired+st.outside, len(cases))
		c.Require(st.maxWindow >= 500 && st.maxTxs > 500, "long-window part: window %d entries / %d transactions ahead never exceeded 500", st.maxWindow, st.maxTxs)
	}
	return done
}
