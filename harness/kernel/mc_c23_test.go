//go:build verif

package kernel

import (
	"bytes"
	"fmt"
	"sort"
	"strings"
	"testing"

	"github.com/MixinNetwork/mixin/common"
	"github.com/MixinNetwork/mixin/crypto"
	"github.com/MixinNetwork/mixin/verifmc"
	"github.com/MixinNetwork/mixin/verifmc/fixc"
)

// C23 (kernel part) — the node-level entry points for peer deliveries:
// CacheStoreTransactions must never make a transaction eligible for proposal,
// CacheQueueTransactions does; retrieval through the store the node uses.
// BFS over all sequences on a real node (the storage part of C23 runs in
// package storage; the wrapper merges both evidence parts).

type c23kBody struct {
	name    string
	payload int
	ver     *common.VersionedTransaction
	raw     []byte
}

var c23kBodies = func() []*c23kBody {
	to := fixc.Addr("c23k")
	mk := func(name string, payload int, ext string, signer crypto.Key) *c23kBody {
		tx := common.NewTransactionV5(common.BitcoinAssetId)
		tx.AddDepositInput(&common.DepositData{Chain: common.BitcoinAssetId, AssetKey: fixc.BTCAssetKey, Transaction: ext, Index: 0, Amount: common.NewIntegerFromString("1")})
		tx.AddScriptOutput([]*common.Address{&to}, common.NewThresholdScript(1), common.NewIntegerFromString("1"), fixc.Seed64("c23k:"+ext))
		ver := tx.AsVersioned()
		if err := ver.SignRaw(signer); err != nil {
			panic(err)
		}
		return &c23kBody{name: name, payload: payload, ver: ver, raw: ver.Marshal()}
	}
	return []*c23kBody{
		mk("p1s", 0, "c23k-1", mcNet7.Custodian.PrivateSpendKey),
		mk("p1t", 0, "c23k-1", fixc.Key("c23k-other-signer")),
		mk("p2", 1, "c23k-2", mcNet7.Custodian.PrivateSpendKey),
	}
}()

type c23kModel struct {
	body   [2]string
	queued [2]bool
	tokens []int
}

func (m *c23kModel) key() string { return fmt.Sprintf("%v %v %v", m.body, m.queued, m.tokens) }

type c23kState struct {
	n *mcNode
	m *c23kModel
}

var c23kEvents = []string{"store(p1s)", "store(p1t)", "store(p2)", "queue(p1s)", "queue(p1t)", "queue(p2)", "store(p1s,p2)", "retrieve(255)", "retrieve(1)"}

func c23kName(ver *common.VersionedTransaction) string {
	raw := ver.Marshal()
	for _, b := range c23kBodies {
		if bytes.Equal(raw, b.raw) {
			return b.name
		}
	}
	return "?"
}

func TestMC_C23(t *testing.T) {
	c := verifmc.Start(t, "C23", "model_checking")
	defer c.Finish()
	c.SetRule("kernel part: BFS over all sequences of node.CacheStoreTransactions / node.CacheQueueTransactions for 3 bodies of 2 payloads (one payload in two differently signed bodies, single and two-member deliveries) and retrieval (limit 255 / 1) on a real node; returned lists and stored bodies compared with the token model after every call")
	c.Assume("node built by the real SetupNode; peer id is irrelevant to the two entry points")
	peer := mcNet7.NodeIds[3]
	pick := func(names ...string) []*common.VersionedTransaction {
		var out []*common.VersionedTransaction
		for _, n := range names {
			for _, b := range c23kBodies {
				if b.name == n {
					out = append(out, b.ver)
				}
			}
		}
		return out
	}
	b := &verifmc.BFS[*c23kState]{
		C: c, NumEvents: len(c23kEvents), MaxDepth: verifmc.Pick(c, 4, 5),
		EventName: func(e int) string { return c23kEvents[e] },
		New: func(int) *c23kState {
			n, err := newMCNode(mcNet7, 0, "")
			if err != nil {
				panic(err)
			}
			return &c23kState{n: n, m: &c23kModel{}}
		},
		Close: func(s *c23kState) { s.n.Close() },
		Key:   func(s *c23kState) string { return s.m.key() },
		Apply: func(s *c23kState, e int, replaying bool, report func(key, desc string)) bool {
			ev := c23kEvents[e]
			before := s.m.key()
			var got, want []string
			var err error
			store := func(names ...string) {
				err = s.n.Node.CacheStoreTransactions(peer, pick(names...))
				for _, n := range names {
					for _, bd := range c23kBodies {
						if bd.name == n && s.m.body[bd.payload] == "" {
							s.m.body[bd.payload] = n
						}
					}
				}
			}
			queue := func(name string) {
				err = s.n.Node.CacheQueueTransactions(peer, pick(name))
				for _, bd := range c23kBodies {
					if bd.name == name && !s.m.queued[bd.payload] {
						s.m.queued[bd.payload] = true
						s.m.body[bd.payload] = name
						s.m.tokens = append(s.m.tokens, bd.payload)
					}
				}
			}
			retrieve := func(limit int) {
				var txs []*common.VersionedTransaction
				txs, err = s.n.Store.CacheRetrieveTransactions(limit)
				for _, tx := range txs {
					got = append(got, c23kName(tx))
				}
				seen := map[int]bool{}
				used := 0
				for _, p := range s.m.tokens {
					if len(want) >= limit {
						break
					}
					used++
					s.m.queued[p] = false
					if seen[p] {
						continue
					}
					seen[p] = true
					if s.m.body[p] != "" {
						want = append(want, s.m.body[p])
					}
				}
				s.m.tokens = append([]int(nil), s.m.tokens[used:]...)
			}
			switch ev {
			case "store(p1s)":
				store("p1s")
			case "store(p1t)":
				store("p1t")
			case "store(p2)":
				store("p2")
			case "store(p1s,p2)":
				store("p1s", "p2")
			case "queue(p1s)":
				queue("p1s")
			case "queue(p1t)":
				queue("p1t")
			case "queue(p2)":
				queue("p2")
			case "retrieve(255)":
				retrieve(255)
			case "retrieve(1)":
				retrieve(1)
			}
			if replaying {
				return true
			}
			if err != nil {
				report("kernel:error:"+ev, fmt.Sprintf("%s failed: %v", ev, err))
				return true
			}
			if strings.HasPrefix(ev, "retrieve") {
				g, w := append([]string(nil), got...), append([]string(nil), want...)
				sort.Strings(g)
				sort.Strings(w)
				if strings.Join(got, ",") != strings.Join(want, ",") {
					key := "kernel:retrieve:differs"
					ws := map[string]bool{}
					for _, x := range want {
						ws[x[:2]] = true
					}
					for _, x := range got {
						if !ws[x[:2]] {
							key = "kernel:retrieve:store-made-eligible"
						}
					}
					report(key, fmt.Sprintf("%s in state [%s] returned %v, the contract gives %v", ev, before, got, want))
				}
			}
			var obs [2]string
			for _, bd := range c23kBodies {
				ver, gerr := s.n.Store.CacheGetTransaction(bd.ver.PayloadHash())
				if gerr != nil {
					panic(gerr)
				}
				if ver != nil {
					obs[bd.payload] = c23kName(ver)
				}
			}
			if obs != s.m.body {
				report("kernel:body:"+strings.SplitN(ev, "(", 2)[0], fmt.Sprintf("after %s from [%s]: stored bodies %v, contract %v", ev, before, obs, s.m.body))
			}
			return true
		},
	}
	st, tr, _, _ := b.Run()
	c.Require(st >= 15 && tr > 100, "vacuous kernel C23 exploration %d/%d", st, tr)
}
