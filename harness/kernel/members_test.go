//go:build verif

package kernel

import (
	"bytes"
	"fmt"
	"os"
	"sort"
	"sync"
	"time"

	"github.com/MixinNetwork/mixin/common"
	"github.com/MixinNetwork/mixin/config"
	"github.com/MixinNetwork/mixin/crypto"
	"github.com/MixinNetwork/mixin/storage"
	"github.com/MixinNetwork/mixin/verifmc"
	"github.com/MixinNetwork/mixin/verifmc/fixc"
	"github.com/dgraph-io/ristretto/v2"
)

// Shared membership-history driver of the kernel-level checks (C09, C11).
//
// A history is a sequence of membership / custodian events. Every event is a
// real transaction (pledge of a new signer funded by a custodian-signed XIN
// deposit, accept of the pledging node, cancel, remove of the oldest accepted
// node, custodian update) that is finalized through the real storage write path
//
//	tx.LockInputs(store, true) -> store.WriteTransaction -> store.WriteSnapshot
//
// on a genesis chain's head round at a chosen snapshot timestamp; then the real
// node.LoadConsensusNodes() is called. Nothing is written into
// node.allNodesSortedWithState by hand. Next to the real node the driver keeps
// the *reference ledger*: a plain list of the records that were applied.

const (
	mcMemPledge = iota
	mcMemAccept
	mcMemCancel
	mcMemRemove
	mcMemCustodian
	mcMemCustodianSame // a different update transaction announcing the SAME custodian account
	mcMemKinds
)

var mcMemKindNames = []string{"pledge", "accept", "cancel", "remove-oldest", "custodian-update", "custodian-update-same-account"}

const (
	mcMemSecond = uint64(time.Second)
	mcMemHour   = uint64(time.Hour)
	mcMemDay    = 24 * mcMemHour
)

// mcMemIdent is a node identity with known private keys.
type mcMemIdent struct {
	Signer  common.Address
	Payee   common.Address
	Id      crypto.Hash
	Genesis bool
}

// mcMemRec is one record of the reference ledger.
type mcMemRec struct {
	Who   int // index into Idents
	State string
	TS    uint64
	Tx    crypto.Hash
}

// mcMemCust is one custodian record of the reference ledger.
type mcMemCust struct {
	TS        uint64
	Tx        crypto.Hash
	Custodian string
	Nodes     int
}

type mcMemEvent struct {
	Kind int
	TS   uint64
}

func (e mcMemEvent) String() string { return fmt.Sprintf("%s@%d", mcMemKindNames[e.Kind], e.TS) }

type mcMemDriver struct {
	M      *mcNode
	Net    *fixc.Net
	Dir    string
	Idents []mcMemIdent
	Recs   []mcMemRec
	Custs  []mcMemCust
	Hist   []mcMemEvent
	Funder common.Address
	Chain  int // genesis chain carrying the snapshots

	seq           int
	pledgeTx      map[int]*common.VersionedTransaction
	lastConsensus crypto.Hash
	custodian     common.Address // current custodian (private keys known)
	custN         int
	custNodes     []common.Address // per-node custodians of the current record (private keys known)
	custShift     int              // payee rotation of same-account updates
	fundTS        uint64
	// LastCustodianIgnored: the last same-account update carried the timestamp of an
	// existing custodian record, which the ledger keeps (the update is finalized, not recorded).
	LastCustodianIgnored bool
	// Validated counts transactions of the history that the real
	// common.Validate accepted at their snapshot timestamp (informational).
	Validated, NotValidated int
	LastValidateErr         string
}

// mcMemNet9 is a 9-node generated genesis: removals are possible from the start
// (more than the minimum of 7 accepted members).
var mcMemNet9 = fixc.NewNet(9, "net9")

var (
	mcMemGenesisMu  sync.Mutex
	mcMemGenesisTxs = map[*fixc.Net][]*common.VersionedTransaction{}
)

func mcMemGenesis(net *fixc.Net) []*common.VersionedTransaction {
	mcMemGenesisMu.Lock()
	defer mcMemGenesisMu.Unlock()
	if txs, ok := mcMemGenesisTxs[net]; ok {
		return txs
	}
	_, _, txs, err := net.Genesis.BuildSnapshots()
	if err != nil {
		panic(err)
	}
	mcMemGenesisTxs[net] = txs
	return txs
}

// mcMemScratch returns a fresh directory for an on-disk store.
func mcMemScratch(prefix string) string {
	base := os.Getenv("VERIF_SCRATCH")
	if base == "" {
		base = "/var/tmp"
	}
	d, err := os.MkdirTemp(base, prefix)
	if err != nil {
		panic(err)
	}
	return d
}

// mcMemNewNode is newMCNodeOnStore with cache metrics switched on, so that the
// checks can assert that remembered verification results were really served.
func mcMemNewNode(net *fixc.Net, self int, dir string) (*mcNode, error) {
	store, err := storage.OpenForVerif(dir)
	if err != nil {
		return nil, err
	}
	cache, err := ristretto.NewCache(&ristretto.Config[[]byte, any]{NumCounters: 1e5, MaxCost: 1 << 26, BufferItems: 64, Metrics: true})
	if err != nil {
		_ = store.Close()
		return nil, err
	}
	node, err := SetupNode(mcCustom(net, self), store, cache, net.Genesis)
	if err != nil {
		cache.Close()
		_ = store.Close()
		return nil, err
	}
	return &mcNode{Net: net, Store: store, Node: node, Cache: cache}, nil
}

// newMCMemDriver builds a fresh real node (signer index 0) over the generated
// 7-node genesis. dir=="" uses in-memory Badger.
func newMCMemDriver(dir string) (*mcMemDriver, error) { return newMCMemDriverNet(mcNet7, dir) }

// newMCMemDriverNet is newMCMemDriver over another generated genesis.
func newMCMemDriverNet(net *fixc.Net, dir string) (*mcMemDriver, error) {
	m, err := mcMemNewNode(net, 0, dir)
	if err != nil {
		return nil, err
	}
	d := &mcMemDriver{M: m, Net: net, Dir: dir, Funder: fixc.Addr("mem-funder"), Chain: 1, pledgeTx: map[int]*common.VersionedTransaction{}}
	gtxs := mcMemGenesis(d.Net)
	for i := range d.Net.Signers {
		d.Idents = append(d.Idents, mcMemIdent{Signer: d.Net.Signers[i], Payee: d.Net.Payees[i], Id: d.Net.NodeIds[i], Genesis: true})
		d.Recs = append(d.Recs, mcMemRec{Who: i, State: common.NodeStateAccepted, TS: d.Net.Epoch, Tx: gtxs[i].PayloadHash()})
	}
	ctx := gtxs[len(d.Net.Signers)]
	d.Custs = append(d.Custs, mcMemCust{TS: d.Net.Epoch + 1, Tx: ctx.PayloadHash(), Custodian: d.Net.Genesis.Custodian.String(), Nodes: len(d.Net.Signers)})
	d.lastConsensus = ctx.PayloadHash()
	d.custodian = d.Net.Custodian
	d.custNodes = append([]common.Address{}, d.Net.Custodians...)
	d.fundTS = d.Net.Epoch + mcMemHour
	return d, nil
}

func (d *mcMemDriver) Close() {
	d.M.Close()
	if d.Dir != "" {
		_ = os.RemoveAll(d.Dir)
	}
}

func (d *mcMemDriver) label(s string) string { d.seq++; return fmt.Sprintf("mem-%s-%d", s, d.seq) }

// finalize is the real write path of one finalized one-transaction snapshot.
func (d *mcMemDriver) finalize(ts uint64, tx *common.VersionedTransaction) (err error) {
	p := verifmc.Catch(func() {
		if err = tx.LockInputs(d.M.Store, true); err != nil {
			return
		}
		_, err = d.M.Store.VerifFinalize(d.Net.NodeIds[d.Chain], ts, false, tx)
	})
	if p != nil {
		return fmt.Errorf("panic: %v", p)
	}
	return err
}

// fund finalizes a custodian-signed XIN deposit to the funder and returns it.
func (d *mcMemDriver) fund(amount string) (*common.VersionedTransaction, error) {
	f := d.Funder
	dep := d.Net.DepositXIN(d.label("deposit"), amount, []*common.Address{&f}, 1)
	d.fundTS += mcMemSecond
	if err := d.finalize(d.fundTS, dep); err != nil {
		return nil, fmt.Errorf("funding deposit: %v", err)
	}
	return dep, nil
}

func (d *mcMemDriver) signByFunder(tx *common.Transaction) *common.VersionedTransaction {
	f := d.Funder
	return fixc.SignAll(tx, d.M.Store, [][]*common.Address{{&f}})
}

// ---- reference ledger (plain replay) ----

// mcMemLatest returns, per node, the record with the greatest timestamp that
// is strictly before q (all records when q == 0 means "now").
func mcMemLatest(recs []mcMemRec, q uint64) map[int]mcMemRec {
	out := map[int]mcMemRec{}
	for _, r := range recs {
		if q != 0 && r.TS >= q {
			continue
		}
		if o, ok := out[r.Who]; !ok || r.TS >= o.TS {
			out[r.Who] = r
		}
	}
	return out
}

func (d *mcMemDriver) current() map[int]mcMemRec { return mcMemLatest(d.Recs, 0) }

func (d *mcMemDriver) pledgingNow() (int, bool) {
	for who, r := range d.current() {
		if r.State == common.NodeStatePledging {
			return who, true
		}
	}
	return 0, false
}

// RefList is the reference membership list at q: one entry per node (latest
// record before q), ordered by (timestamp, node id text).
func (d *mcMemDriver) RefList(q uint64, acceptedOnly bool) []mcMemRec {
	var out []mcMemRec
	for _, r := range mcMemLatest(d.Recs, q) {
		if acceptedOnly && r.State != common.NodeStateAccepted {
			continue
		}
		out = append(out, r)
	}
	sort.Slice(out, func(i, j int) bool {
		if out[i].TS != out[j].TS {
			return out[i].TS < out[j].TS
		}
		return d.Idents[out[i].Who].Id.String() < d.Idents[out[j].Who].Id.String()
	})
	return out
}

func (d *mcMemDriver) addRec(r mcMemRec) {
	// the ledger keys a record by (timestamp, signer): a second record of the
	// same node at the same timestamp replaces the first
	for i := range d.Recs {
		if d.Recs[i].Who == r.Who && d.Recs[i].TS == r.TS {
			d.Recs[i] = r
			return
		}
	}
	d.Recs = append(d.Recs, r)
}

// LastTS is the timestamp of the last applied event (epoch+1 when none).
func (d *mcMemDriver) LastTS() uint64 {
	if n := len(d.Hist); n > 0 {
		return d.Hist[n-1].TS
	}
	return d.Net.Epoch + 1
}

// Enabled is the driver's structural precondition (reference state only, no
// timestamps): which operation makes sense at all.
func (d *mcMemDriver) Enabled(kind int) bool {
	_, pledging := d.pledgingNow()
	switch kind {
	case mcMemPledge:
		return !pledging
	case mcMemAccept, mcMemCancel:
		return pledging
	case mcMemRemove:
		n := 0
		for _, r := range d.current() {
			if r.State == common.NodeStateAccepted {
				n++
			}
		}
		return !pledging && n > config.KernelMinimumNodesCount
	case mcMemCustodian, mcMemCustodianSame:
		return true
	}
	return false
}

// Apply builds the transaction of the event against the current ledger,
// finalizes it through the real write path at snapshot timestamp ts and
// reloads the consensus nodes. It returns an error when the driver's
// precondition or the write path refuses the event; the instance must then be
// discarded (an unfinalized transaction may be left behind).
func (d *mcMemDriver) Apply(kind int, ts uint64) error {
	if !d.Enabled(kind) {
		return fmt.Errorf("%s not enabled", mcMemKindNames[kind])
	}
	// the snapshots of consecutive events are on different genesis chains
	d.Chain = 1 + len(d.Hist)%3
	var tx *common.VersionedTransaction
	var after func()
	switch kind {
	case mcMemPledge:
		dep, err := d.fund("13439")
		if err != nil {
			return err
		}
		n := len(d.Idents)
		id := mcMemIdent{Signer: fixc.NodeAddr(fmt.Sprintf("mem-signer-%d", n)), Payee: fixc.NodeAddr(fmt.Sprintf("mem-payee-%d", n))}
		id.Id = id.Signer.Hash().ForNetwork(d.Net.NetworkId)
		raw := common.NewTransactionV5(common.XINAssetId)
		raw.AddInput(dep.PayloadHash(), 0)
		raw.Outputs = append(raw.Outputs, &common.Output{Type: common.OutputTypeNodePledge, Amount: common.KernelNodePledgeAmount})
		raw.Extra = append(append([]byte{}, id.Signer.PublicSpendKey[:]...), id.Payee.PublicSpendKey[:]...)
		raw.References = []crypto.Hash{d.lastConsensus}
		tx = d.signByFunder(raw)
		after = func() {
			d.Idents = append(d.Idents, id)
			d.pledgeTx[n] = tx
			d.addRec(mcMemRec{Who: n, State: common.NodeStatePledging, TS: ts, Tx: tx.PayloadHash()})
		}
	case mcMemAccept:
		who, _ := d.pledgingNow()
		pledge := d.pledgeTx[who]
		raw := common.NewTransactionV5(common.XINAssetId)
		raw.AddInput(pledge.PayloadHash(), 0)
		raw.AddOutputWithType(common.OutputTypeNodeAccept, nil, common.Script{}, pledge.Outputs[0].Amount, []byte{})
		raw.Extra = append([]byte{}, pledge.Extra...)
		raw.References = []crypto.Hash{d.lastConsensus}
		tx = raw.AsVersioned()
		sig := d.Idents[who].Signer.PrivateSpendKey.Sign(tx.PayloadHash())
		tx.SignaturesMap = []map[uint16]*crypto.Signature{{0: &sig}}
		after = func() {
			d.addRec(mcMemRec{Who: who, State: common.NodeStateAccepted, TS: ts, Tx: tx.PayloadHash()})
		}
	case mcMemCancel:
		who, _ := d.pledgingNow()
		pledge := d.pledgeTx[who]
		raw := common.NewTransactionV5(common.XINAssetId)
		raw.AddInput(pledge.PayloadHash(), 0)
		penalty := pledge.Outputs[0].Amount.Div(100)
		raw.Outputs = append(raw.Outputs, &common.Output{Type: common.OutputTypeNodeCancel, Amount: penalty})
		f := d.Funder
		raw.AddScriptOutput([]*common.Address{&f}, common.NewThresholdScript(1), pledge.Outputs[0].Amount.Sub(penalty), fixc.Seed64(d.label("cancel")))
		raw.Extra = append(append([]byte{}, pledge.Extra...), d.Funder.PrivateViewKey[:]...)
		raw.References = []crypto.Hash{d.lastConsensus}
		pin := pledge.Inputs[0]
		keys, err := d.M.Store.ReadUTXOKeys(pin.Hash, pin.Index)
		if err != nil {
			return err
		}
		priv := crypto.DeriveGhostPrivateKey(&keys.Mask, &d.Funder.PrivateViewKey, &d.Funder.PrivateSpendKey, uint64(pin.Index))
		tx = raw.AsVersioned()
		sig := priv.Sign(tx.PayloadHash())
		tx.SignaturesMap = []map[uint16]*crypto.Signature{{0: &sig}}
		after = func() {
			d.addRec(mcMemRec{Who: who, State: common.NodeStateCancelled, TS: ts, Tx: tx.PayloadHash()})
		}
	case mcMemRemove:
		// the oldest accepted node of the reference ledger; its accept output is the input
		acc := d.RefList(0, true)
		candi := acc[0]
		id := d.Idents[candi.Who]
		accept, _, err := d.M.Store.ReadTransaction(candi.Tx)
		if err != nil || accept == nil {
			return fmt.Errorf("accept transaction %s of the removal candidate not readable: %v", candi.Tx, err)
		}
		raw := common.NewTransactionV5(common.XINAssetId)
		raw.AddInput(candi.Tx, 0)
		raw.Extra = append([]byte{}, accept.Extra...)
		payee := fixc.Pub(id.Payee)
		in := fmt.Sprintf("NODEREMOVE%s", fixc.Pub(id.Signer).String())
		si := crypto.Blake3Hash([]byte(payee.String() + in))
		raw.AddOutputWithType(common.OutputTypeNodeRemove, []*common.Address{&payee}, common.NewThresholdScript(1), accept.Outputs[0].Amount, append(si[:], si[:]...))
		raw.References = []crypto.Hash{d.lastConsensus}
		tx = raw.AsVersioned()
		after = func() {
			d.addRec(mcMemRec{Who: candi.Who, State: common.NodeStateRemoved, TS: ts, Tx: tx.PayloadHash()})
		}
	case mcMemCustodian, mcMemCustodianSame:
		same := kind == mcMemCustodianSame
		count := len(d.Net.Signers)
		amount := common.NewInteger(100).Mul(count)
		dep, err := d.fund(amount.String())
		if err != nil {
			return err
		}
		newCust := d.custodian
		custNodes := d.custNodes
		shift := d.custShift
		if same {
			// same account, same per-node custodians, payees rotated: a different transaction
			shift++
		} else {
			d.custN++
			newCust = fixc.Addr(fmt.Sprintf("mem-custodian-%d", d.custN))
			custNodes = make([]common.Address, count)
			for i := range custNodes {
				custNodes[i] = fixc.Addr(fmt.Sprintf("mem-custodian-%d-node-%d", d.custN, i))
			}
		}
		nodes := make([]*common.CustodianNode, count)
		for i := 0; i < count; i++ {
			cu := custNodes[i]
			pa := d.Net.Payees[(i+shift)%count]
			si := d.Net.Signers[i]
			cup, pap := fixc.Pub(cu), fixc.Pub(pa)
			extra := common.EncodeCustodianNode(&cup, &pap, &si.PrivateSpendKey, &pa.PrivateSpendKey, &cu.PrivateSpendKey, d.Net.NetworkId)
			nodes[i] = &common.CustodianNode{Custodian: cup, Payee: pap, Extra: extra}
		}
		sort.Slice(nodes, func(i, j int) bool {
			return bytes.Compare(nodes[i].Custodian.PublicSpendKey[:], nodes[j].Custodian.PublicSpendKey[:]) < 0
		})
		extra := append(append([]byte{}, newCust.PublicSpendKey[:]...), newCust.PublicViewKey[:]...)
		for _, n := range nodes {
			extra = append(extra, n.Extra...)
		}
		sig := d.custodian.PrivateSpendKey.Sign(crypto.Blake3Hash(extra))
		extra = append(extra, sig[:]...)
		raw := common.NewTransactionV5(common.XINAssetId)
		raw.AddInput(dep.PayloadHash(), 0)
		ncp := fixc.Pub(newCust)
		raw.AddOutputWithType(common.OutputTypeCustodianUpdateNodes, []*common.Address{&ncp}, common.NewThresholdScript(common.Operator64), amount, fixc.Seed64(d.label("custodian-out")))
		raw.Extra = extra
		raw.References = []crypto.Hash{d.lastConsensus}
		tx = d.signByFunder(raw)
		after = func() {
			d.LastCustodianIgnored = false
			if same {
				d.custShift = shift
				for _, c := range d.Custs {
					if c.TS == ts {
						// the ledger keeps the record that is already stamped ts (same account)
						d.LastCustodianIgnored = true
						return
					}
				}
			}
			d.custodian = newCust
			d.custNodes = custNodes
			// a different account at the timestamp of an existing record is refused by the ledger (panic)
			d.Custs = append(d.Custs, mcMemCust{TS: ts, Tx: tx.PayloadHash(), Custodian: ncp.String(), Nodes: count})
		}
	default:
		return fmt.Errorf("unknown event kind %d", kind)
	}

	var verr error
	if p := verifmc.Catch(func() { verr = tx.Validate(d.M.Store, ts, false) }); p != nil {
		verr = fmt.Errorf("panic: %v", p)
	}
	if verr == nil {
		d.Validated++
	} else {
		d.NotValidated++
		d.LastValidateErr = mcMemKindNames[kind] + ": " + verr.Error()
	}

	if err := d.finalize(ts, tx); err != nil {
		return err
	}
	after()
	d.lastConsensus = tx.PayloadHash()
	d.Hist = append(d.Hist, mcMemEvent{Kind: kind, TS: ts})
	return d.Reload()
}

// Reload calls the real LoadConsensusNodes and refreshes the identity of the
// chains of nodes without rounds (pledging / accepted by this driver) through
// the real chain.loadState.
func (d *mcMemDriver) Reload() error {
	if err := d.M.Node.LoadConsensusNodes(); err != nil {
		return err
	}
	for i := range d.Idents {
		if d.Idents[i].Genesis {
			continue
		}
		chain := d.M.Node.getOrCreateChain(d.Idents[i].Id)
		if chain == nil {
			return fmt.Errorf("no chain for node %d", i)
		}
		if err := chain.loadState(); err != nil {
			return err
		}
	}
	return nil
}

// Priv returns the private spend key of a consensus public key.
func (d *mcMemDriver) Priv(pub crypto.Key) *crypto.Key { return mcMemPriv(pub) }

var mcMemPrivCache sync.Map

// mcMemPriv finds the private spend key of a genesis signer or of a signer
// pledged by a driver / a synthetic node (deterministic labels mem-signer-7..30).
func mcMemPriv(pub crypto.Key) *crypto.Key {
	if v, ok := mcMemPrivCache.Load(pub); ok {
		return v.(*crypto.Key)
	}
	for _, net := range []*fixc.Net{mcNet7, mcMemNet9} {
		for i := range net.Signers {
			k := net.Signers[i].PrivateSpendKey
			mcMemPrivCache.Store(net.Signers[i].PublicSpendKey, &k)
		}
	}
	for n := len(mcNet7.Signers); n < len(mcNet7.Signers)+24; n++ {
		a := fixc.NodeAddr(fmt.Sprintf("mem-signer-%d", n))
		k := a.PrivateSpendKey
		mcMemPrivCache.Store(a.PublicSpendKey, &k)
	}
	if v, ok := mcMemPrivCache.Load(pub); ok {
		return v.(*crypto.Key)
	}
	return nil
}

func mcMemHistString(h []mcMemEvent, epoch uint64) []string {
	out := make([]string, len(h))
	for i, e := range h {
		since := e.TS - epoch
		out[i] = fmt.Sprintf("%s@day%d+%s", mcMemKindNames[e.Kind], since/mcMemDay, time.Duration(since%mcMemDay))
	}
	return out
}
