//go:build verif

package kernel

import (
	"encoding/binary"
	"encoding/hex"
	"fmt"
	"strings"
	"testing"
	"time"

	"github.com/MixinNetwork/mixin/common"
	"github.com/MixinNetwork/mixin/crypto"
	"github.com/MixinNetwork/mixin/kernel/internal/clock"
	"github.com/MixinNetwork/mixin/p2p"
	"github.com/MixinNetwork/mixin/verifmc"
	"github.com/MixinNetwork/mixin/verifmc/fixc"
)

// C30 — peer authentication binds identity, recipient, freshness and role.
// Bounded-exhaustive enumeration (E1) against the real AuthenticateAs of a real
// node, with messages from the real BuildAuthenticationMessage:
//   E1 product signer x relayer flag x addressed-to x called-as x timestamp offset x timeout
//   E2 every single bit flip of every byte of accepted messages (T=0 and T=10),
//      every (flag-byte bit, other bit) double flip [thorough: every double flip]
//   E3 every length 0..140 (truncate / pad) and every byte rotation
//   E4 flag byte 0..255 with the original signature, and re-signed
//   E5 signature / field transplants between every ordered pair of a pool of valid messages
//   E6 recipient differing in exactly one of its 256 bits
//   E7 a receiver of another network
// Oracle: accepted => (137 bytes, signature by the named key over the first 73
// bytes, addressed to the called identity, within skew, not the receiver
// itself) and token fields as stated; every message that is by construction a
// modification of a signed message must be rejected. The converse (valid but
// rejected) is informational only.
//
// Freshness contract (shared with harness/p2p/mc_c30_test.go): timeoutSec > 0
// bounds |now - ts|; timeoutSec <= 0 DISABLES the freshness clause. Legitimate
// callers of 0: only p2p.(*Peer).updateRemoteRelayerConsumers (a relayer
// re-announcing the tokens of its consumers, recipient = that relayer). The
// handshake path p2p.(*Peer).authenticateNeighbor must pass 0 < T <= 10; the
// p2p part of this check drives it under a virtual clock and asserts that.
// Here the contract itself is measured: every stale token (|offset| > 10 s) is
// accepted under T=0 ("stale_tokens_accepted_with_timeout_0") and none under
// T in {1,10} at the same offsets.
//
// Time: the clock cannot be frozen (clock.Now = time.Now + diff). Every call is
// bracketed by two clock readings and repeated until both fall into the same
// second, so the second used by AuthenticateAs is known exactly and the skew
// expectation never depends on elapsed real time.

type c30Signer struct {
	label string
	addr  common.Address
	ids   map[crypto.Hash]crypto.Hash // network id -> peer id
}

func (s *c30Signer) builder(relayer bool) *Node {
	return &Node{Signer: s.addr, isRelayer: relayer}
}

type c30Result struct {
	tok *p2p.AuthToken
	err error
	sec int64
}

// c30Call runs AuthenticateAs bracketed inside one clock second.
func c30Call(n *Node, as crypto.Hash, msg []byte, timeout int64) (c30Result, bool) {
	for try := 0; try < 100; try++ {
		b := clock.Now().Unix()
		tok, err := n.AuthenticateAs(as, msg, timeout)
		a := clock.Now().Unix()
		if a == b {
			return c30Result{tok, err, b}, true
		}
	}
	return c30Result{}, false
}

func c30ErrClass(err error) string {
	s := err.Error()
	switch {
	case strings.Contains(s, "malformatted"):
		return "length"
	case strings.Contains(s, "timeout"):
		return "skew"
	case strings.Contains(s, "not for me"):
		return "recipient"
	case strings.Contains(s, "is self"):
		return "self"
	case strings.Contains(s, "signature invalid"):
		return "signature"
	}
	return "other:" + strings.ReplaceAll(s, " ", "-")
}

func c30Region(bit int) string {
	switch b := bit / 8; {
	case b < 8:
		return "timestamp"
	case b < 40:
		return "recipient"
	case b < 72:
		return "key"
	case b == 72:
		return "flag"
	case b < 105:
		return "sigR"
	default:
		return "sigS"
	}
}

func TestMC_C30(t *testing.T) {
	c := verifmc.Start(t, "C30", "exploration")
	defer c.Finish()
	c.SetRule("full product 4 signer keys x flag{0,1} x addressed-to{R1,R2,signer's own id} x called-as{R1,R2,signer's own id} x 21 timestamp offsets (exact seconds around every timeout) x timeout{0,1,10,3600}; timestamp wrap families (now +- k*2^55 +- eps, +-2^n, k*2^64/{1e3,1e6,1e9} floor/ceil, raw fields 0,1,2^63,2^64-1, unit confusion) x the same timeouts, re-signed by the named key; every single-bit flip (1096) of 6 accepted messages under T=0 and T=10; flag-bit x other-bit double flips; lengths 0..140 x 2 paddings; 136 rotations; flag byte 0..255 unsigned and re-signed; all ordered pairs of a 12-message pool for signature and per-field transplants; 256 one-bit recipient variants; second network. A case is distinct by (timeout, called-as, offset class, message bytes with the timestamp replaced by its offset)")
	c.Assume("crypto.Key.Verify / Sign (Ed25519 over blake3) are the trusted base for the reference predicate 'signed by the key it names'; the by-construction oracle (modified signed message must be rejected) does not use them",
		"timeoutSec <= 0 means 'no freshness check' by contract: legitimate only for p2p updateRemoteRelayerConsumers (consumers announcement); the handshake caller authenticateNeighbor is checked by the p2p part of C30 to always pass 0 < timeoutSec <= 10",
		"a single call of AuthenticateAs completes within one clock second in at least one of 100 attempts (otherwise the run reports broken, not a violation)")

	recv, err := newMCNode(mcNet7, 0, "")
	if err != nil {
		t.Fatal(err)
	}
	defer recv.Close()
	netB := fixc.NewNet(7, "net7-other")
	recvB, err := newMCNode(netB, 0, "")
	if err != nil {
		t.Fatal(err)
	}
	defer recvB.Close()
	full1, err := newMCNode(mcNet7, 1, "")
	if err != nil {
		t.Fatal(err)
	}
	defer full1.Close()
	defer clock.Reset()

	netA := mcNet7.NetworkId
	c.Require(recv.Node.networkId == netA && recvB.Node.networkId == netB.NetworkId && netA != netB.NetworkId, "fixture network ids")
	mk := func(label string, a common.Address) *c30Signer {
		return &c30Signer{label, a, map[crypto.Hash]crypto.Hash{
			netA:           a.Hash().ForNetwork(netA),
			netB.NetworkId: a.Hash().ForNetwork(netB.NetworkId),
		}}
	}
	signers := []*c30Signer{
		mk("receiver-itself(net7-signer-0)", mcNet7.Signers[0]),
		mk("net7-signer-1", mcNet7.Signers[1]),
		mk("net7-signer-2", mcNet7.Signers[2]),
		mk("outsider(not-in-genesis)", fixc.NodeAddr("c30-outsider")),
	}
	// independent anchors for the identity derivation: ids computed by the kernel itself
	c.Require(signers[0].ids[netA] == recv.Node.IdForNetwork && signers[1].ids[netA] == full1.Node.IdForNetwork && mcNet7.NodeIds[2] == signers[2].ids[netA], "peer id derivation differs from the kernel's own IdForNetwork")
	R1 := recv.Node.IdForNetwork
	R2 := mcNet7.NodeIds[3]

	// ---- reference predicate and judge ----
	type ctx struct {
		kind       string // provenance / enumeration family
		node       *Node
		as         crypto.Hash
		msg        []byte
		timeout    int64
		mustReject bool       // by construction a modification of a signed message
		signer     *c30Signer // known signer of the (unmodified) body, nil if unknown
		flag       int        // builder's flag, -1 if unknown
		wantAccept int        // by construction: 1 accept expected, 0 reject expected, -1 unknown
		pinOff     bool       // E1: the case only counts when ts - now == needOff at the call
		needOff    int64
	}
	var judgeRetry func(x ctx) (accepted, retry bool)
	judge := func(x ctx) bool {
		a, _ := judgeRetry(x)
		return a
	}
	judgeRetry = func(x ctx) (accepted, retry bool) {
		r, ok := c30Call(x.node, x.as, x.msg, x.timeout)
		if !ok {
			c.Require(false, "AuthenticateAs could not be bracketed inside one clock second")
			return false, false
		}
		msg := x.msg
		var ts uint64
		if len(msg) >= 8 {
			ts = binary.BigEndian.Uint64(msg[:8])
		}
		if x.pinOff && int64(ts)-r.sec != x.needOff {
			return false, true
		}
		c.Eval(1)
		// distinct key: message with the absolute timestamp replaced by its offset
		dk := fmt.Sprintf("%s|%d|%x|%d|", x.kind, x.timeout, x.as[:6], int64(ts)-r.sec)
		if len(msg) >= 8 {
			dk += string(msg[8:])
		} else {
			dk += string(msg)
		}
		c.Distinct(dk)
		replay := map[string]any{"kind": x.kind, "network": "fixc.NewNet(7,\"net7\") receiver=signer 0 (or net7-other for kind other-network)", "called_as": x.as.String(), "timeout_sec": x.timeout, "msg_hex": hex.EncodeToString(msg), "ts_minus_now_sec": int64(ts) - r.sec, "ts_field": fmt.Sprint(ts), "note": "rebuild the message with ts = now + ts_minus_now_sec and re-sign when replaying later"}

		// reference predicate
		lenOK := len(msg) == 137
		var sigOK, rcptOK, skewOK, notSelf bool
		var dist uint64
		var peer crypto.Hash
		if lenOK {
			var key crypto.Key
			copy(key[:], msg[40:72])
			var sig crypto.Signature
			copy(sig[:], msg[73:137])
			verifmc.Catch(func() { sigOK = key.Verify(crypto.Blake3Hash(msg[:73]), sig) })
			rcptOK = string(msg[8:40]) == string(x.as[:])
			// exact |now - ts| over the unsigned 64-bit timestamp (no wrap, no rounding)
			nowU := uint64(r.sec)
			dist = nowU - ts
			if ts > nowU {
				dist = ts - nowU
			}
			skewOK = x.timeout <= 0 || dist <= uint64(x.timeout)
			var a common.Address
			a.PublicSpendKey = key
			verifmc.Catch(func() { a.PublicViewKey = key.DeterministicHashDerive().Public() })
			peer = a.Hash().ForNetwork(x.node.networkId)
			notSelf = peer != x.as
		}
		valid := lenOK && sigOK && rcptOK && skewOK && notSelf

		if r.err != nil {
			cls := c30ErrClass(r.err)
			c.Outcome("reject:" + cls)
			if valid && !x.mustReject {
				c.Stricter("valid message rejected: " + cls)
				c.Outcome("reject-but-valid")
			}
			if x.wantAccept == 1 {
				c.Outcome("constructed-valid-rejected")
			}
			return false, false
		}
		c.Outcome("accept")
		if lenOK && x.timeout <= 0 && dist > 10 {
			c.Add("stale_tokens_accepted_with_timeout_0", 1)
		}
		if lenOK && x.timeout > 0 && dist <= uint64(x.timeout) && dist > 0 {
			c.Add("aged_tokens_accepted_within_positive_timeout", 1)
		}
		viol := func(key, desc string) {
			c.Outcome("ACCEPT-WRONG:" + key)
			c.Violation(key, desc+fmt.Sprintf(" [kind=%s timeout=%d ts-now=%d]", x.kind, x.timeout, int64(ts)-r.sec), replay)
		}
		switch {
		case !lenOK:
			viol("accept:length", fmt.Sprintf("message of %d bytes accepted", len(msg)))
		case !sigOK:
			viol("accept:not-signed-by-named-key", "accepted although the signature does not verify under the named key over the 73 signed bytes")
		case !rcptOK:
			viol("accept:wrong-recipient", fmt.Sprintf("accepted as %s although addressed to %x", x.as, msg[8:40]))
		case !skewOK:
			dir := "past"
			if ts > uint64(r.sec) {
				dir = "future"
			}
			if dist > 1<<32 {
				dir += ":far"
			}
			viol("accept:outside-skew:"+dir, fmt.Sprintf("accepted with timestamp field %d, which is %d s in the %s of now=%d, timeout %d", ts, dist, dir, r.sec, x.timeout))
		case !notSelf:
			viol("accept:self", "accepted a message signed by the receiver's own identity")
		}
		if x.mustReject {
			viol("accept:modified:"+x.kind, "a modification of a signed message was accepted")
		}
		if x.wantAccept == 0 && valid {
			c.Require(false, "harness: constructed-invalid case %s is valid by the reference predicate", x.kind)
		}
		// token fields
		if r.tok == nil {
			viol("token:nil", "nil token without error")
			return true, false
		}
		if lenOK {
			wantPeer := peer
			if x.signer != nil && !x.mustReject {
				wantPeer = x.signer.ids[x.node.networkId]
			}
			if r.tok.PeerId != wantPeer {
				viol("token:peer-id", fmt.Sprintf("token.PeerId %s, identity of the named key on this network is %s", r.tok.PeerId, wantPeer))
			}
			if r.tok.Timestamp != ts {
				viol("token:timestamp", fmt.Sprintf("token.Timestamp %d, field %d", r.tok.Timestamp, ts))
			}
			if r.tok.IsRelayer != (msg[72] == 1) {
				viol("token:relayer", fmt.Sprintf("token.IsRelayer %v, flag byte %d", r.tok.IsRelayer, msg[72]))
			}
			if x.flag >= 0 && !x.mustReject && r.tok.IsRelayer != (x.flag == 1) {
				viol("token:relayer-vs-builder", fmt.Sprintf("token.IsRelayer %v, builder's role %d", r.tok.IsRelayer, x.flag))
			}
		}
		return true, false
	}

	phase := time.Now()
	lap := func(name string) {
		c.Set("wall_s_"+name, fmt.Sprintf("%.1f", time.Since(phase).Seconds()))
		phase = time.Now()
	}
	// ---- E1: the product ----
	offsets := []int64{-(1 << 31), -3601, -3600, -3599, -12, -11, -10, -9, -2, -1, 0, 1, 2, 9, 10, 11, 12, 3599, 3600, 3601, 1 << 31}
	timeouts := []int64{0, 1, 10, 3600}
	var e1Accept, e1WantAccept int64
	pinned := func(b *Node, to crypto.Hash, off int64) []byte {
		d := time.Duration(off) * time.Second
		for try := 0; try < 100; try++ {
			s0 := clock.Now().Unix()
			clock.MockDiff(d)
			msg := b.BuildAuthenticationMessage(to)
			clock.MockDiff(-d)
			s1 := clock.Now().Unix()
			if s0 == s1 && int64(binary.BigEndian.Uint64(msg[:8]))-s1 == off {
				return msg
			}
		}
		return nil
	}
	for _, s := range signers {
		self := s.ids[netA]
		rcpts := []crypto.Hash{R1, R2, self}
		for flag := 0; flag < 2; flag++ {
			b := s.builder(flag == 1)
			for ti, to := range rcpts {
				for ai, as := range rcpts {
					for _, off := range offsets {
						for _, T := range timeouts {
							var acc, done bool
							want := to == as && as != self && (T == 0 || (off >= -T && off <= T))
							for try := 0; try < 20 && !done; try++ {
								msg := pinned(b, to, off)
								if msg == nil {
									break
								}
								w := 0
								if want {
									w = 1
								}
								// the offset must still be exact at the second of the call, else rebuild
								var retry bool
								acc, retry = judgeRetry(ctx{kind: fmt.Sprintf("product:to%d-as%d", ti, ai), node: recv.Node, as: as, msg: msg, timeout: T, signer: s, flag: flag, wantAccept: w, pinOff: true, needOff: off})
								done = !retry
							}
							c.Require(done, "could not pin timestamp offset %d", off)
							if want {
								e1WantAccept++
							}
							if acc {
								e1Accept++
							}
						}
					}
				}
			}
		}
	}
	c.Set("product_cases_expected_accept", e1WantAccept)
	c.Set("product_cases_accepted", e1Accept)
	lap("product")

	// ---- E1b: integer / float wrap families of the timestamp ----
	// The real builder cannot stamp these (time.Duration spans only +-292 years),
	// so a real builder message gets its timestamp overwritten and is re-signed
	// by the named key: valid in every respect except freshness. delta is added
	// to the current second modulo 2^64; the reference distance is exact.
	{
		deltaSet := map[uint64]bool{}
		add := func(v uint64) { deltaSet[v] = true; deltaSet[-v] = true }
		eps := []uint64{0, 1, 2, 9, 10, 11, 3599, 3600, 3601}
		around := func(v uint64) {
			for _, e := range eps {
				add(v + e)
				add(v - e)
			}
		}
		for _, k := range []uint64{1, 2, 3, 127, 128, 129, 255, 256} { // k*2^55 s * 1e9 = 0 mod 2^64
			around(k << 55)
		}
		for _, sh := range []uint{31, 32, 33, 40, 52, 53, 54, 56, 61, 62, 63} {
			add(1 << sh)
			add(1<<sh - 1)
			add(1<<sh + 1)
		}
		add(1<<63 - 1)
		add(1<<64 - 1)
		// unit wraps: k * 2^64 / unit and 2^63 / unit seconds, floor and ceiling, +-1
		for _, unit := range []uint64{1000, 1000000, 1000000000} {
			for _, k := range []uint64{1, 2, 3, 128, 255} {
				// floor(k * 2^64 / unit) without overflow: q*k + (r*k)/unit
				q, r := (1<<64-1)/unit, (1<<64-1)%unit+1
				v := q*k + (r*k)/unit
				for _, e := range []uint64{0, 1, 2} {
					add(v + e)
					add(v - e)
				}
			}
			h := (uint64(1) << 63) / unit
			add(h)
			add(h + 1)
		}
		raws := []uint64{0, 1, 2, 1 << 31, 1 << 32, 1<<63 - 1, 1 << 63, 1<<63 + 1, 1<<64 - 2, 1<<64 - 1}
		s := signers[1]
		var wrapCases, wrapAccT0 int64
		run := func(kind string, flag int, tsOf func(now uint64) uint64) {
			for _, T := range timeouts {
				m := s.builder(flag == 1).BuildAuthenticationMessage(R1)
				ts := tsOf(binary.BigEndian.Uint64(m[:8]))
				binary.BigEndian.PutUint64(m[:8], ts)
				sig := s.addr.PrivateSpendKey.Sign(crypto.Blake3Hash(m[:73]))
				copy(m[73:], sig[:])
				w := 0
				if T == 0 {
					w = 1
				}
				wrapCases++
				if judge(ctx{kind: kind, node: recv.Node, as: R1, msg: m, timeout: T, signer: s, flag: flag, wantAccept: w}) && T == 0 {
					wrapAccT0++
				}
			}
		}
		for d := range deltaSet {
			if d < 1<<30 || -d < 1<<30 {
				continue // genuinely near offsets belong to the pinned product above
			}
			d := d
			for flag := 0; flag < 2; flag++ {
				run("wrap-offset", flag, func(now uint64) uint64 { return now + d })
			}
		}
		for _, raw := range raws {
			raw := raw
			for flag := 0; flag < 2; flag++ {
				run("raw-timestamp", flag, func(uint64) uint64 { return raw })
			}
		}
		// "now" mistaken for another unit
		for _, mul := range []uint64{1000, 1000000, 1000000000} {
			mul := mul
			run("unit-confusion", 0, func(now uint64) uint64 { return now * mul })
		}
		c.Set("wrap_family_deltas", len(deltaSet))
		c.Set("wrap_family_cases", wrapCases)
		if c.Violations() == 0 {
			c.Require(wrapAccT0*int64(len(timeouts)) == wrapCases, "wrap families: %d accepted under T=0 of %d cases", wrapAccT0, wrapCases)
		}
	}
	lap("wrap")

	// ---- base messages for the mutation families ----
	type base struct {
		s    *c30Signer
		flag int
		to   crypto.Hash
		msg  []byte
	}
	buildPool := func(tos []crypto.Hash) []base {
		for try := 0; try < 100; try++ {
			var pool []base
			for _, s := range signers[1:] {
				for flag := 0; flag < 2; flag++ {
					for _, to := range tos {
						pool = append(pool, base{s, flag, to, s.builder(flag == 1).BuildAuthenticationMessage(to)})
					}
				}
			}
			same := true
			for _, p := range pool {
				if string(p.msg[:8]) != string(pool[0].msg[:8]) {
					same = false
				}
			}
			if same {
				return pool
			}
		}
		c.Require(false, "could not build a pool of messages within one second")
		return nil
	}

	// ---- E2: bit flips ----
	for _, T := range []int64{0, 10} {
		pool := buildPool([]crypto.Hash{R1})
		for _, p := range pool {
			if !judge(ctx{kind: "base", node: recv.Node, as: R1, msg: p.msg, timeout: T, signer: p.s, flag: p.flag, wantAccept: 1}) {
				c.Require(false, "base message of %s rejected", p.s.label)
			}
		}
		if T != 0 && !c.Thorough() {
			pool = pool[:2] // quick: all six messages under T=0, one per flag value under T=10
		}
		nbits := 137 * 8
		c.ParallelN(len(pool)*nbits, "single bit flips", func(_, i int) {
			p, bit := pool[i/nbits], i%nbits
			m := append([]byte{}, p.msg...)
			m[bit/8] ^= 1 << (bit % 8)
			acc := judge(ctx{kind: "bitflip-" + c30Region(bit), node: recv.Node, as: R1, msg: m, timeout: T, mustReject: true, flag: -1})
			if !acc && T == 0 && bit < 64 {
				c.Outcome("timestamp-flip-rejected-under-T0")
			}
		})
		// double flips: one bit of the flag byte + any other bit (quick); every pair on one message (thorough)
		// (quick: the first message of each flag value; thorough: all six)
		dpool := pool
		if !c.Thorough() {
			dpool = pool[:2]
		}
		c.ParallelN(len(dpool)*8*nbits, "flag+other double flips", func(_, i int) {
			p := dpool[i/(8*nbits)]
			fb, bit := 72*8+(i/nbits)%8, i%nbits
			if bit/8 == 72 && bit <= fb {
				return
			}
			m := append([]byte{}, p.msg...)
			m[fb/8] ^= 1 << (fb % 8)
			m[bit/8] ^= 1 << (bit % 8)
			judge(ctx{kind: "doubleflip-flag+" + c30Region(bit), node: recv.Node, as: R1, msg: m, timeout: T, mustReject: true, flag: -1})
		})
		if c.Thorough() && T == 0 {
			p := pool[1]
			c.ParallelN(nbits*nbits, "all double flips of one message", func(_, i int) {
				b1, b2 := i/nbits, i%nbits
				if b1 >= b2 {
					return
				}
				m := append([]byte{}, p.msg...)
				m[b1/8] ^= 1 << (b1 % 8)
				m[b2/8] ^= 1 << (b2 % 8)
				judge(ctx{kind: "doubleflip-" + c30Region(b1) + "+" + c30Region(b2), node: recv.Node, as: R1, msg: m, timeout: T, mustReject: true, flag: -1})
			})
		}
	}

	lap("bitflips")
	// ---- E3..E6 under T=0 and a fresh pool under T=10 ----
	var nonBoolAccepted int64
	for _, T := range []int64{0, 10} {
		pool := buildPool([]crypto.Hash{R1, R2})
		// E3 lengths and rotations
		for _, p := range pool[:4] {
			if p.to != R1 {
				continue
			}
			for l := 0; l <= verifmc.Pick(c, 140, 300); l++ {
				for pad := 0; pad < 2; pad++ {
					var m []byte
					if l <= 137 {
						if pad == 1 {
							continue
						}
						m = append([]byte{}, p.msg[:l]...)
					} else {
						m = append([]byte{}, p.msg...)
						for len(m) < l {
							if pad == 0 {
								m = append(m, 0)
							} else {
								m = append(m, p.msg[len(m)%137])
							}
						}
					}
					w := 0
					if l == 137 {
						w = 1
					}
					judge(ctx{kind: "length", node: recv.Node, as: R1, msg: m, timeout: T, mustReject: l != 137, signer: p.s, flag: p.flag, wantAccept: w})
				}
			}
			for k := 1; k < 137; k++ {
				m := append(append([]byte{}, p.msg[k:]...), p.msg[:k]...)
				judge(ctx{kind: "rotation", node: recv.Node, as: R1, msg: m, timeout: T, mustReject: true, flag: -1})
			}
			// E4 flag byte values
			for f := 0; f < 256; f++ {
				m := append([]byte{}, p.msg...)
				m[72] = byte(f)
				if f != p.flag {
					judge(ctx{kind: "flag-value-original-signature", node: recv.Node, as: R1, msg: m, timeout: T, mustReject: true, flag: -1})
				}
				// re-signed by the right key: valid by the statement; role must be (flag == 1)
				sig := p.s.addr.PrivateSpendKey.Sign(crypto.Blake3Hash(m[:73]))
				copy(m[73:], sig[:])
				if judge(ctx{kind: "flag-value-resigned", node: recv.Node, as: R1, msg: m, timeout: T, signer: p.s, flag: -1, wantAccept: 1}) && f > 1 {
					nonBoolAccepted++
				}
			}
		}
		// E5 transplants between every ordered pair
		type field struct {
			name   string
			lo, hi int
		}
		fields := []field{{"signature", 73, 137}, {"recipient", 8, 40}, {"key", 40, 72}, {"flag", 72, 73}, {"key+signature", 40, 72}, {"sigR", 73, 105}, {"sigS", 105, 137}}
		for i, a := range pool {
			for j, b := range pool {
				if i == j {
					continue
				}
				for _, f := range fields {
					m := append([]byte{}, a.msg...)
					copy(m[f.lo:f.hi], b.msg[f.lo:f.hi])
					if f.name == "key+signature" {
						copy(m[73:], b.msg[73:])
					}
					isPool := false
					for _, q := range pool {
						isPool = isPool || string(m) == string(q.msg)
					}
					if isPool {
						continue
					}
					for _, as := range []crypto.Hash{R1, R2} {
						judge(ctx{kind: "transplant-" + f.name, node: recv.Node, as: as, msg: m, timeout: T, mustReject: true, flag: -1})
					}
				}
			}
		}
		// E6 recipients differing in one bit
		s := signers[1]
		for bit := 0; bit < 256; bit++ {
			near := R1
			near[bit/8] ^= 1 << (bit % 8)
			m := s.builder(bit%2 == 1).BuildAuthenticationMessage(near)
			judge(ctx{kind: "near-recipient-called-as-R1", node: recv.Node, as: R1, msg: m, timeout: T, signer: s, flag: bit % 2, wantAccept: 0})
			judge(ctx{kind: "near-recipient-called-as-itself", node: recv.Node, as: near, msg: m, timeout: T, signer: s, flag: bit % 2, wantAccept: 1})
			m2 := s.builder(bit%2 == 1).BuildAuthenticationMessage(R1)
			judge(ctx{kind: "R1-called-as-near-recipient", node: recv.Node, as: near, msg: m2, timeout: T, signer: s, flag: bit % 2, wantAccept: 0})
		}
		// E7 another network: identity is derived for the receiver's network
		RB := recvB.Node.IdForNetwork
		for _, s := range signers {
			for flag := 0; flag < 2; flag++ {
				m := s.builder(flag == 1).BuildAuthenticationMessage(RB)
				judge(ctx{kind: "other-network", node: recvB.Node, as: RB, msg: m, timeout: T, signer: s, flag: flag, wantAccept: 1})
				judge(ctx{kind: "other-network-as-R1", node: recvB.Node, as: R1, msg: m, timeout: T, signer: s, flag: flag, wantAccept: 0})
				judge(ctx{kind: "other-network-on-net7", node: recv.Node, as: R1, msg: m, timeout: T, signer: s, flag: flag, wantAccept: 0})
			}
		}
	}
	c.Set("resigned_nonboolean_flag_accepted_as_non_relayer", nonBoolAccepted)
	lap("structured")

	// the kernel-built node's own builder (not a bare struct)
	{
		m := full1.Node.BuildAuthenticationMessage(R1)
		if !judge(ctx{kind: "full-node-builder", node: recv.Node, as: R1, msg: m, timeout: 10, signer: signers[1], flag: 0, wantAccept: 1}) {
			c.Require(false, "message of a SetupNode-built node was rejected")
		}
	}

	c.Sample(map[string]any{"kind": "product", "signer": signers[1].label, "flag": 1, "addressed_to": "R1", "called_as": "R1", "ts_offset_sec": 11, "timeout": 10, "expect": "reject (skew)"})
	c.Sample(map[string]any{"kind": "product", "signer": signers[0].label, "addressed_to": "R1", "called_as": "R1", "ts_offset_sec": 0, "timeout": 0, "expect": "reject (self)"})
	c.Sample(map[string]any{"kind": "bitflip-flag", "bit": 72 * 8, "expect": "reject (signature)"})
	c.Sample(map[string]any{"kind": "transplant-signature", "body": "signer-1 flag 0", "signature_of": "signer-1 flag 1, same second", "expect": "reject"})
	c.Sample(map[string]any{"kind": "near-recipient-called-as-R1", "recipient": "R1 xor bit 255", "expect": "reject (recipient)"})

	if c.Violations() == 0 {
		c.Require(e1Accept == e1WantAccept && e1Accept > 100, "product: accepted %d, expected by construction %d", e1Accept, e1WantAccept)
		c.Require(c.OutcomeCount("constructed-valid-rejected") == 0, "%d constructed-valid messages were rejected", c.OutcomeCount("constructed-valid-rejected"))
		for _, cls := range []string{"length", "skew", "recipient", "self", "signature"} {
			c.Require(c.OutcomeCount("reject:"+cls) > 0, "rejection class %s never reached", cls)
		}
		c.Require(c.OutcomeCount("timestamp-flip-rejected-under-T0") == 6*64, "timestamp bit flips under T=0: %d", c.OutcomeCount("timestamp-flip-rejected-under-T0"))
	}
}
