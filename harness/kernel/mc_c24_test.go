//go:build verif

package kernel

import (
	"encoding/hex"
	"fmt"
	"sort"
	"strings"
	"sync"
	"sync/atomic"
	"testing"
	"time"

	"github.com/MixinNetwork/mixin/common"
	"github.com/MixinNetwork/mixin/config"
	"github.com/MixinNetwork/mixin/crypto"
	"github.com/MixinNetwork/mixin/kernel/internal/clock"
	"github.com/MixinNetwork/mixin/p2p"
	"github.com/MixinNetwork/mixin/verifmc"
	"github.com/MixinNetwork/mixin/verifmc/fixc"
)

// C24 — retiring a local proposal never loses a pending transaction, and a
// transaction owned by a still-active proposal is not re-queued.
//
// Exhaustive enumeration (E2, "exploration"): every configuration of the real
// node's own Chain {0..2 CosiAggregators over 4 real transactions, every
// overlap pattern the announcement guard admits, every age / completion
// combination} x every ledger/cache state of the referenced transactions x
// every retirement or deferral event. Thorough adds a wider state alphabet, a
// fourth age (two aged proposals sharing a transaction), exactly three
// proposals, and every second event after a partial retirement. After every
// event the real cache queue is drained and compared with the statement.

const c24NTx = 4

// cases served by one cache database before it is replaced by a fresh one
const c24Recycle = 256

// ledger/cache state of one transaction
const (
	c24Uc = iota // unfinalized, body only in the cache store (CacheStoreTransaction, NOT queued)
	c24Us        // unfinalized, body only in the persistent store (LockInputs + WriteTransaction)
	c24Un        // unfinalized, no body anywhere
	c24Fc        // finalized by a real WriteSnapshot, body also still in the cache store
	c24Ub        // unfinalized, body in both stores
	c24Fn        // finalized, no cache copy
)

var c24StateName = []string{"Uc", "Us", "Un", "Fc", "Ub", "Fn"}

func c24Names(sts []int) []string {
	out := make([]string, len(sts))
	for i, s := range sts {
		out[i] = c24StateName[s]
	}
	return out
}

func c24Final(st int) bool { return st == c24Fc || st == c24Fn }
func c24Body(st int) bool  { return st == c24Uc || st == c24Us || st == c24Ub }
func c24InCache(st int) bool {
	return st == c24Uc || st == c24Fc || st == c24Ub
}

// c24Agg is one local proposal: transaction set (bit mask), age index
// (c24Ages), completion index (c24Comps).
type c24Agg struct {
	set       uint8
	age, comp int
}

type c24Event struct {
	kind string // expire | retry | reset | overflow | defer-cutoff | defer-dup | hook-finalized | hook-unbroadcast | hook-slow | announce
	k    int    // aggregator index (retry)
	mask uint8  // owned (reset) or the deferred proposal's transactions
}

func c24Mask(m uint8) string {
	var p []string
	for i := 0; i < c24NTx; i++ {
		if m&(1<<uint(i)) != 0 {
			p = append(p, fmt.Sprintf("t%d", i))
		}
	}
	return "{" + strings.Join(p, ",") + "}"
}

func (e c24Event) String() string {
	switch e.kind {
	case "expire":
		return "expire"
	case "retry":
		return fmt.Sprintf("retry(P%d)", e.k)
	}
	return e.kind + c24Mask(e.mask)
}

type c24Tier struct {
	states  []int // transaction state alphabet; states[0] is c24Uc, the default of unreferenced transactions
	name    string
	minAggs int      // aggregators per configuration: at least
	maxAggs int      // ... and at most
	ages    []uint64 // now - timestamp, in units: see c24AgeNs
	ageName []string
	comps   [][2]int // (commitments, responses) relative: filled with the real threshold
	depth2  int      // sequences of two events for configurations with <= depth2 aggregators (-1: none)
	canon   int      // index of the age "gap+1": the one age of a proposal whose timestamp the event does not read
	oldest  int      // index of the age "2gap+2" (-1: not in the alphabet)
	// oldestNarrow: the oldest age is enumerated only where it adds something, a
	// proposal sharing a transaction with another aged proposal, and only under expiry
	oldestNarrow bool
	pairStates   []int // state alphabet of configurations with two or more proposals (nil: states)
	companions   int   // most unguarded companions of a proposal deferred by the duplicate guard
	reps         int   // executions of a case whose outcome may depend on Go's map iteration order
}

// c24Inst is one real node whose four transactions are in a fixed ledger/cache
// state; chain state is rebuilt for every case, the cache database is compared
// with its baseline image after every case.
type c24Inst struct {
	m        *mcNode
	chain    *Chain
	real     *ChainState
	round    uint64
	txs      [c24NTx]*common.VersionedTransaction
	hash     [c24NTx]crypto.Hash
	idx      map[crypto.Hash]int
	st       [c24NTx]int
	now      uint64
	base     int
	tier     *c24Tier
	baseline map[string]string
	live     []*common.Snapshot             // snapshot of proposal k of the installed configuration
	spmGood  map[crypto.Hash]*p2p.SyncPoint // every peer at our final round: broadcasted and caught up
	spmAhead map[crypto.Hash]*p2p.SyncPoint // every peer two rounds ahead: we are slow in catching up
}

func c24AgeNs(a uint64) uint64 {
	// a is encoded as gaps*10 + extra nanoseconds: 11 = gap+1, 10 = gap, 1 = 1, 22 = 2gap+2
	return (a/10)*config.SnapshotRoundGap + a%10
}

func c24NewInst(tier *c24Tier, st [c24NTx]int) (*c24Inst, error) {
	m, err := newMCNode(mcNet7, 0, "")
	if err != nil {
		return nil, err
	}
	in := &c24Inst{m: m, chain: m.Node.chain, st: st, tier: tier, idx: map[crypto.Hash]int{}}
	if in.chain == nil || in.chain.State == nil || in.chain.ChainId != m.Node.IdForNetwork {
		m.Close()
		return nil, fmt.Errorf("fixture node has no own chain state")
	}
	in.real = in.chain.State
	in.round = in.real.CacheRound.Number
	net := m.Net
	in.now = net.Epoch + uint64(84*time.Hour)
	in.base = m.Node.ConsensusThreshold(in.now, false)
	wallet := fixc.Addr("c24-wallet")
	for i := 0; i < c24NTx; i++ {
		tx := net.DepositXIN(fmt.Sprintf("c24-deposit-%d", i), fmt.Sprintf("%d", 11+i), []*common.Address{&wallet}, 1)
		in.txs[i], in.hash[i] = tx, tx.PayloadHash()
		in.idx[in.hash[i]] = i
		var e error
		p := verifmc.Catch(func() {
			switch st[i] {
			case c24Us, c24Ub:
				if e = tx.LockInputs(m.Store, false); e == nil {
					e = m.Store.WriteTransaction(tx)
				}
			case c24Fc, c24Fn:
				_, e = m.Store.VerifFinalize(net.NodeIds[0], net.Epoch+uint64(48*time.Hour)+uint64(i+1)*uint64(time.Hour), true, tx)
			}
			if e == nil && c24InCache(st[i]) {
				e = m.Store.CacheStoreTransaction(tx)
			}
		})
		if p != nil || e != nil {
			m.Close()
			return nil, fmt.Errorf("setup of t%d in state %s failed: %v %v", i, c24StateName[st[i]], p, e)
		}
	}
	// the fixture must really be in the state the oracle assumes
	for i := 0; i < c24NTx; i++ {
		ptx, fin, err := m.Store.ReadTransaction(in.hash[i])
		ctx, cerr := m.Store.CacheGetTransaction(in.hash[i])
		ok := err == nil && cerr == nil && (len(fin) > 0) == c24Final(st[i]) && (ctx != nil) == c24InCache(st[i])
		switch st[i] {
		case c24Uc, c24Un:
			ok = ok && ptx == nil
		default:
			ok = ok && ptx != nil
		}
		if !ok {
			m.Close()
			return nil, fmt.Errorf("t%d is not in state %s: persistent=%v final=%q cache=%v %v %v", i, c24StateName[st[i]], ptx != nil, fin, ctx != nil, err, cerr)
		}
	}
	in.baseline = m.Store.VerifDumpCache("CACHETRANSACTION")
	// sync points for the events that go through cosiHook -> checkActionSanity
	final := in.real.FinalRound
	in.spmGood, in.spmAhead = map[crypto.Hash]*p2p.SyncPoint{}, map[crypto.Hash]*p2p.SyncPoint{}
	for _, cn := range m.Node.NodesListWithoutState(clock.NowUnixNano(), true) {
		if cn.IdForNetwork != m.Node.IdForNetwork {
			in.spmGood[cn.IdForNetwork] = &p2p.SyncPoint{NodeId: cn.IdForNetwork, Number: final.Number, Hash: final.Hash}
			in.spmAhead[cn.IdForNetwork] = &p2p.SyncPoint{NodeId: cn.IdForNetwork, Number: final.Number + 2, Hash: final.Hash}
		}
	}
	in.chain.running = true
	if m.Node.Peer == nil {
		// no connection, no loop: messages to the other nodes go nowhere
		m.Node.Peer = p2p.NewPeer(m.Node, m.Node.IdForNetwork, "c24", false)
	}
	old := m.Node.SyncPointsMap
	m.Node.SyncPointsMap = in.spmGood
	good := m.Node.CheckBroadcastedToPeers() && m.Node.CheckCatchUpWithPeers() && m.Node.GetRemovingOrSlashingNode(m.Node.IdForNetwork) == nil
	m.Node.SyncPointsMap = in.spmAhead
	ahead := m.Node.CheckBroadcastedToPeers() && !m.Node.CheckCatchUpWithPeers()
	m.Node.SyncPointsMap = nil
	none := !m.Node.CheckBroadcastedToPeers()
	m.Node.SyncPointsMap = old
	if !good || !ahead || !none {
		m.Close()
		return nil, fmt.Errorf("sync point fixtures do not drive checkActionSanity as intended: %v %v %v", good, ahead, none)
	}
	return in, nil
}

// renewCache swaps in an empty cache database and re-creates the baseline image.
func (in *c24Inst) renewCache() error {
	if err := in.m.Store.VerifRenewCache(); err != nil {
		return err
	}
	for i := 0; i < c24NTx; i++ {
		if c24InCache(in.st[i]) {
			if err := in.m.Store.CacheStoreTransaction(in.txs[i]); err != nil {
				return err
			}
		}
	}
	return in.restore()
}

func (in *c24Inst) close() {
	in.chain.State = in.real
	in.m.Close()
}

func (in *c24Inst) hashes(mask uint8) []crypto.Hash {
	var hs []crypto.Hash
	for i := 0; i < c24NTx; i++ {
		if mask&(1<<uint(i)) != 0 {
			hs = append(hs, in.hash[i])
		}
	}
	return hs
}

func (in *c24Inst) ts(a c24Agg) uint64 { return in.now - c24AgeNs(in.tier.ages[a.age]) }

func (in *c24Inst) counts(a c24Agg) (int, int) {
	cr := in.tier.comps[a.comp]
	return in.base + cr[0], in.base + cr[1]
}

// install builds the chain's CoSi maps the way cosiSendAnnouncement does:
// aggregators keyed by snapshot hash, a verifier per proposal registered under
// the snapshot hash and under every transaction, later proposals overwriting
// the transaction entries of earlier ones.
//
// Go visits a small map in insertion order with probability 7/8 (and rotated
// otherwise): reverse inserts the proposals youngest first, so that repeated
// executions of a case reach both visiting orders of expireCosiAggregators.
func (in *c24Inst) install(cfg []c24Agg, reverse bool) {
	ch := in.chain
	ch.State = in.real
	ch.CosiAggregators = make(map[crypto.Hash]*CosiAggregator)
	ch.CosiVerifiers = make(map[crypto.Hash]*CosiVerifier)
	in.live = make([]*common.Snapshot, len(cfg))
	order := make([]int, len(cfg))
	for i := range order {
		order[i] = i
	}
	sort.SliceStable(order, func(a, b int) bool { return in.ts(cfg[order[a]]) < in.ts(cfg[order[b]]) })
	var aggs []*CosiAggregator
	for _, k := range order {
		a := cfg[k]
		s := &common.Snapshot{
			Version:      common.SnapshotVersionCommonEncoding,
			NodeId:       ch.ChainId,
			RoundNumber:  in.round,
			References:   in.real.CacheRound.References,
			Timestamp:    in.ts(a),
			Transactions: in.hashes(a.set),
		}
		s.Hash = s.PayloadHash()
		agg := &CosiAggregator{
			Snapshot:       s,
			WantTxs:        make(map[crypto.Hash][]crypto.Hash),
			FullChallenges: make(map[crypto.Hash]bool),
			Commitments:    make(map[int]*crypto.Key),
			Responses:      make(map[int]*[32]byte),
		}
		for i := 0; i < c24NTx; i++ {
			if a.set&(1<<uint(i)) != 0 {
				agg.Transactions = append(agg.Transactions, in.txs[i])
			}
		}
		nc, nr := in.counts(a)
		for i := 0; i < nc; i++ {
			agg.Commitments[i] = &c24Commitments[i]
		}
		for i := 0; i < nr; i++ {
			agg.Responses[i] = new([32]byte)
		}
		v := &CosiVerifier{Snapshot: s, nonce: nil}
		ch.CosiVerifiers[s.Hash] = v
		for _, h := range s.Transactions {
			ch.CosiVerifiers[h] = v
		}
		aggs = append(aggs, agg)
		in.live[k] = s
	}
	if reverse {
		for i := len(aggs) - 1; i >= 0; i-- {
			ch.CosiAggregators[aggs[i].Snapshot.Hash] = aggs[i]
		}
	} else {
		for _, agg := range aggs {
			ch.CosiAggregators[agg.Snapshot.Hash] = agg
		}
	}
}

func (in *c24Inst) liveMask() (alive []bool, n int) {
	alive = make([]bool, len(in.live))
	for k, s := range in.live {
		if in.chain.CosiAggregators[s.Hash] != nil {
			alive[k] = true
			n++
		}
	}
	return
}

// ownedNow: the code's own notion of ownership, CosiVerifiers[tx] pointing at a
// proposal that is still in CosiAggregators. guarded: owner younger than a gap
// (what the announcement guard protects at time now).
func (in *c24Inst) ownedNow() (owned, guarded, dangling uint8) {
	for i := 0; i < c24NTx; i++ {
		v := in.chain.CosiVerifiers[in.hash[i]]
		if v == nil {
			continue
		}
		if in.chain.CosiAggregators[v.Snapshot.Hash] == nil {
			dangling |= 1 << uint(i)
			continue
		}
		owned |= 1 << uint(i)
		if in.now < v.Snapshot.Timestamp+config.SnapshotRoundGap {
			guarded |= 1 << uint(i)
		}
	}
	return
}

// enabled lists every event of the alphabet that the driver may apply in the
// current chain state.
func (in *c24Inst) enabled(cfg []c24Agg) []c24Event {
	evs := []c24Event{{kind: "expire"}}
	alive, _ := in.liveMask()
	resets := map[uint8]bool{0: true}
	for k, a := range cfg {
		if !alive[k] {
			continue
		}
		evs = append(evs, c24Event{kind: "retry", k: k})
		for sub := a.set; ; sub = (sub - 1) & a.set {
			resets[sub] = true
			if sub == 0 {
				break
			}
		}
	}
	for m := 0; m < 1<<c24NTx; m++ {
		if resets[uint8(m)] {
			evs = append(evs, c24Event{kind: "reset", mask: uint8(m)})
		}
	}
	owned, guarded, dangling := in.ownedNow()
	free := uint8(1<<c24NTx-1) &^ owned &^ dangling
	// a proposal handed over by the queue loop: only transactions that are not in flight
	for n := free; n != 0; n = (n - 1) & free {
		evs = append(evs, c24Event{kind: "overflow", mask: n})
		evs = append(evs, c24Event{kind: "defer-cutoff", mask: n})
		evs = append(evs, c24Event{kind: "hook-unbroadcast", mask: n})
		evs = append(evs, c24Event{kind: "hook-slow", mask: n})
		// enabled only when n holds a finalized transaction (c24HookFinalizedOK)
		evs = append(evs, c24Event{kind: "hook-finalized", mask: n})
	}
	// a new proposal that is really installed: it takes over at least one
	// transaction of a proposal that is past the guard (aged a gap or more) but
	// has not been visited by the expiry pass yet, the rest not in flight
	aged := owned &^ guarded
	for o := aged; o != 0; o = (o - 1) & aged {
		for f := free; ; f = (f - 1) & free {
			evs = append(evs, c24Event{kind: "announce", mask: o | f})
			if f == 0 {
				break
			}
		}
	}
	// a proposal with at least one transaction the guard protects, the rest not in flight
	for g := guarded; g != 0; g = (g - 1) & guarded {
		for f := free; ; f = (f - 1) & free {
			if c24Pop(f) <= in.tier.companions {
				evs = append(evs, c24Event{kind: "defer-dup", mask: g | f})
			}
			if f == 0 {
				break
			}
		}
	}
	return evs
}

type c24Finding struct{ key, desc string }

type c24Report struct {
	tier   *c24Tier
	rank   [6]int
	desc   string
	replay any
	st     [c24NTx]int
	cfg    []c24Agg
	seq    []c24Event
}

func c24Less(a, b [6]int) bool {
	for i := range a {
		if a[i] != b[i] {
			return a[i] < b[i]
		}
	}
	return false
}

// refOf: transactions referenced by the configuration and the event sequence.
func (in *c24Inst) refOf(cfg []c24Agg, seq []c24Event) uint8 {
	var ref uint8
	for _, a := range cfg {
		ref |= a.set
	}
	for _, e := range seq {
		if e.kind != "expire" && e.kind != "retry" {
			ref |= e.mask
		}
	}
	return ref
}

// c24Runs shrinks the alphabet where a dimension is not read by the code under
// the event. The commitments/responses classes are read by expiry; they are also
// enumerated under the round reset with no owned transaction (a reset must not
// distinguish them); every other event is enumerated with all proposals in the
// first class. Timestamps are read by expiry and by the announcement guard only,
// so retry / reset / overflow / cutoff are enumerated with one age (gap+1) for
// every proposal that shares no transaction with another one, the guard event
// with two (gap+1 and the youngest); for sharing proposals the ages decide who
// owns the shared transaction and all admitted combinations stay.
func c24Runs(t *c24Tier, cfg []c24Agg, e c24Event) bool {
	if e.kind == "expire" {
		return true
	}
	for k, a := range cfg {
		if e.kind == "announce" && a.comp == 0 && a.set&e.mask != 0 {
			continue // the proposal the announcement overlaps: every aged age
		}
		if t.oldestNarrow && a.age == t.oldest {
			return false
		}
		if a.comp != 0 && !(e.kind == "reset" && e.mask == 0) {
			return false
		}
		if a.age == t.canon || (e.kind == "defer-dup" && a.age == len(t.ages)-1) {
			continue // the guard event also needs the youngest age: it is what the guard protects
		}
		shares := false
		for j, b := range cfg {
			if j != k && a.set&b.set != 0 {
				shares = true
			}
		}
		if !shares {
			return false
		}
	}
	return true
}

// c24EventOK: state dependent driver precondition. hook-finalized needs a
// finalized transaction in the proposal.
func c24EventOK(e c24Event, st [c24NTx]int) bool {
	if e.kind == "announce" {
		// checkActionSanity lets a self proposal through only with all bodies found
		// and nothing finalized
		for i := 0; i < c24NTx; i++ {
			if e.mask&(1<<uint(i)) != 0 && !c24Body(st[i]) {
				return false
			}
		}
		return true
	}
	if e.kind != "hook-finalized" {
		return true
	}
	for i := 0; i < c24NTx; i++ {
		if e.mask&(1<<uint(i)) != 0 && c24Final(st[i]) {
			return true
		}
	}
	return false
}

// alphabet of the referenced transactions of a configuration
func (t *c24Tier) alphabet(cfg []c24Agg) []int {
	if len(cfg) >= 2 && t.pairStates != nil {
		return t.pairStates
	}
	return t.states
}

// c24Planned: number of state assignments under which (cfg, e) is executed.
func c24Planned(t *c24Tier, cfg []c24Agg, e c24Event, ref uint8) int64 {
	al := t.alphabet(cfg)
	pow := func(b, n int) int64 {
		k := int64(1)
		for i := 0; i < n; i++ {
			k *= int64(b)
		}
		return k
	}
	n := c24Pop(e.mask)
	if e.kind == "announce" {
		body := 0
		for _, s := range al {
			if c24Body(s) {
				body++
			}
		}
		return pow(len(al), c24Pop(ref)-n) * pow(body, n)
	}
	if e.kind != "hook-finalized" {
		return pow(len(al), c24Pop(ref))
	}
	unfinal := 0
	for _, s := range al {
		if !c24Final(s) {
			unfinal++
		}
	}
	return pow(len(al), c24Pop(ref)-n) * (pow(len(al), n) - pow(unfinal, n))
}

var c24Commitments = func() []crypto.Key {
	ks := make([]crypto.Key, 16)
	for i := range ks {
		ks[i] = fixc.Key(fmt.Sprintf("c24-commitment-%d", i)).Public()
	}
	return ks
}()

var c24PoolFiller = &CosiAction{Action: CosiActionExternalCommitments}

func (in *c24Inst) fakeState(first uint64) *ChainState {
	cr := in.real.CacheRound.Copy()
	cr.Timestamp = first
	cr.Snapshots = []*common.Snapshot{{Version: common.SnapshotVersionCommonEncoding, NodeId: in.chain.ChainId, RoundNumber: cr.Number, Timestamp: first}}
	return &ChainState{CacheRound: cr, FinalRound: in.real.FinalRound.Copy(), RoundHistory: in.real.RoundHistory, RoundLinks: in.real.RoundLinks}
}

// apply executes one event through the real code and (judge) compares the
// drained real queue and the CoSi maps with the statement.
func (in *c24Inst) apply(cfg []c24Agg, e c24Event, judge bool) (fs []c24Finding, outcome string, queued uint8) {
	ch := in.chain
	before, _ := in.liveMask()
	ownedBefore, _, _ := in.ownedNow()
	var deferred uint8
	installed := 0
	name := e.kind
	var err error
	p := verifmc.Catch(func() {
		switch e.kind {
		case "expire":
			ch.expireCosiAggregators(in.now)
		case "retry":
			ch.retryCosiSnapshot(in.live[e.k])
		case "reset":
			ch.resetCosiStateForNewRound(in.hashes(e.mask))
		case "overflow":
			deferred = e.mask
			for ch.CachePool.Offer(c24PoolFiller) == nil {
			}
			full := len(ch.CachePool)
			s := &common.Snapshot{Version: common.SnapshotVersionCommonEncoding, NodeId: ch.ChainId}
			for _, h := range in.hashes(e.mask) {
				s.AddTransaction(h)
			}
			err = ch.AppendSelfEmpty(s)
			if len(ch.CachePool) != full || full != CachePoolSnapshotsLimit {
				err = fmt.Errorf("pool was not full: %d %d", full, len(ch.CachePool))
			}
			for ch.CachePool.Poll() != nil {
			}
		case "hook-finalized", "hook-unbroadcast", "hook-slow":
			// the queue loop's self proposal goes through the real cosiHook; the
			// sanity check rejects it because one of its transactions has been
			// finalized meanwhile / the peers have not our rounds / are ahead
			deferred = e.mask
			hs := in.hashes(e.mask)
			spm := in.spmGood
			switch e.kind {
			case "hook-unbroadcast":
				spm = nil
			case "hook-slow":
				spm = in.spmAhead
			case "hook-finalized":
				// a finalized transaction first: the validation stops there and
				// does not persist the cache-only companions listed after it
				for i, h := range hs {
					if c24Final(in.st[in.idx[h]]) {
						hs[0], hs[i] = hs[i], hs[0]
						break
					}
				}
			}
			old := ch.node.SyncPointsMap
			ch.node.SyncPointsMap = spm
			s := &common.Snapshot{Version: common.SnapshotVersionCommonEncoding, NodeId: ch.ChainId, Transactions: hs}
			_, err = ch.cosiHook(&CosiAction{Action: CosiActionSelfEmpty, PeerId: ch.ChainId, Snapshot: s})
			ch.node.SyncPointsMap = old
		case "announce":
			ch.State = in.fakeState(in.now - 1)
			hs := in.hashes(e.mask)
			found := map[crypto.Hash]*common.VersionedTransaction{}
			for _, h := range hs {
				found[h] = in.txs[in.idx[h]]
			}
			self := &CNode{IdForNetwork: ch.ChainId, ConsensusIndex: 0}
			s := &common.Snapshot{Version: common.SnapshotVersionCommonEncoding, NodeId: ch.ChainId, Timestamp: in.now, Transactions: hs}
			m := &CosiAction{Action: CosiActionSelfEmpty, PeerId: ch.ChainId, Snapshot: s, data: &CosiChainData{CN: self, PN: self, FoundTxs: found}}
			err = ch.cosiSendAnnouncement(m)
			ch.State = in.real
			if ch.CosiAggregators[s.Hash] != nil {
				installed = 1
			} else {
				deferred = e.mask // neither installed: then it must be back in the queue
			}
		case "defer-cutoff", "defer-dup":
			deferred = e.mask
			first := in.now - 1
			if e.kind == "defer-cutoff" {
				first = in.now - config.SnapshotRoundGap + 1
			}
			ch.State = in.fakeState(first)
			s := &common.Snapshot{Version: common.SnapshotVersionCommonEncoding, NodeId: ch.ChainId, Timestamp: in.now, Transactions: in.hashes(e.mask)}
			m := &CosiAction{Action: CosiActionSelfEmpty, PeerId: ch.ChainId, Snapshot: s, data: &CosiChainData{FoundTxs: map[crypto.Hash]*common.VersionedTransaction{}}}
			err = ch.cosiSendAnnouncement(m)
			ch.State = in.real
		}
	})
	ch.State = in.real

	// raw queue keys (a transaction queued twice has two keys), then the real drain
	raw := map[int]int{}
	for k := range in.m.Store.VerifDumpCache("CACHETRANSACTIONQUEUE") {
		b, _ := hex.DecodeString(k)
		var h crypto.Hash
		if len(b) >= 32 {
			copy(h[:], b[len(b)-32:])
		}
		if i, ok := in.idx[h]; ok {
			raw[i]++
		} else {
			raw[-1]++
		}
	}
	drained, derr := in.m.Store.CacheRetrieveTransactions(255)
	for _, tx := range drained {
		if i, ok := in.idx[tx.PayloadHash()]; ok {
			queued |= 1 << uint(i)
		}
	}
	if !judge {
		return nil, "", queued
	}
	add := func(class, format string, args ...any) {
		fs = append(fs, c24Finding{class + ":" + name, fmt.Sprintf(format, args...)})
	}
	if p != nil || err != nil || derr != nil {
		add("panic", "%s failed: panic=%v err=%v drain=%v", e, p, err, derr)
		return fs, "panic", queued
	}
	if raw[-1] > 0 {
		add("requeued-foreign", "queue holds %d keys of unknown transactions (drained %d)", raw[-1], len(drained))
	}
	for i, n := range raw {
		if i >= 0 && n > 1 {
			add("requeued-twice", "t%d has %d queue entries", i, n)
		}
		if i >= 0 && queued&(1<<uint(i)) == 0 {
			add("requeued-foreign", "t%d has a queue entry but was not returned by CacheRetrieveTransactions", i)
		}
	}

	after, nAfter := in.liveMask()
	if len(ch.CosiAggregators) != nAfter+installed {
		add("foreign-aggregator", "CosiAggregators holds %d entries, %d of them known", len(ch.CosiAggregators), nAfter+installed)
	}
	var retiredSet uint8
	nRetired := 0
	for k := range cfg {
		if after[k] && !before[k] {
			add("revived", "P%d was retired and is back in CosiAggregators", k)
		}
		if !before[k] || after[k] {
			continue
		}
		nRetired++
		retiredSet |= cfg[k].set
		switch e.kind {
		case "expire":
			nc, nr := in.counts(cfg[k])
			if nc >= in.base && nr == nc {
				add("expired-complete", "P%d (%d commitments, %d responses, threshold %d) was retired by expiry", k, nc, nr, in.base)
			}
			if c24AgeNs(in.tier.ages[cfg[k].age]) < config.SnapshotRoundGap {
				add("expired-young", "P%d aged %s was retired by expiry", k, in.tier.ageName[cfg[k].age])
			}
		case "retry":
			if k != e.k {
				add("retired-other", "retry of P%d also retired P%d", e.k, k)
			}
		case "reset":
		default:
			add("retired-other", "%s retired P%d", e, k)
		}
	}
	switch e.kind {
	case "retry":
		if after[e.k] {
			add("not-retired", "P%d is still in CosiAggregators after retryCosiSnapshot", e.k)
		}
	case "reset":
		if nAfter != 0 || len(ch.CosiVerifiers) != 0 {
			add("not-retired", "round reset left %d aggregators and %d verifiers", len(ch.CosiAggregators), len(ch.CosiVerifiers))
		}
	}
	ownedAfter, _, dangling := in.ownedNow()
	if dangling != 0 {
		add("stale-verifier", "%s still have a CosiVerifiers entry of a proposal that is no longer in CosiAggregators: the announcement guard keeps deferring them and nothing will ever expire that entry", c24Mask(dangling))
	}
	for k, s := range in.live {
		if !after[k] && ch.CosiVerifiers[s.Hash] != nil {
			add("stale-verifier", "snapshot verifier of retired P%d is still registered", k)
		}
	}
	// who may / must be in the queue
	source := retiredSet | deferred
	exempt := ownedAfter
	if e.kind == "reset" {
		exempt |= e.mask // owned by the new-round proposal installed right after the reset
	}
	if deferred != 0 {
		exempt |= ownedBefore & deferred
	}
	for i := 0; i < c24NTx; i++ {
		bit := uint8(1) << uint(i)
		inQ := queued&bit != 0
		if inQ && c24Final(in.st[i]) {
			add("requeued-finalized", "finalized t%d was queued again", i)
		}
		if inQ && exempt&bit != 0 {
			add("requeued-owned-by-active", "t%d was queued again although it is owned by a proposal that stays active (owned-after=%s, excluded=%s)", i, c24Mask(ownedAfter), c24Mask(exempt&^ownedAfter))
		}
		if inQ && source&bit == 0 {
			add("requeued-foreign", "t%d was queued although it belongs to no retired or deferred proposal", i)
		}
		if !inQ && source&bit != 0 && exempt&bit == 0 && !c24Final(in.st[i]) && c24Body(in.st[i]) {
			add("lost", "t%d (%s) belonged to a retired/deferred proposal, is unfinalized, has a body, is owned by nobody and is not in the queue", i, c24StateName[in.st[i]])
		}
	}
	outcome = fmt.Sprintf("%s:retired=%d:queued=%d", e.kind, nRetired, c24Pop(queued))
	if e.kind == "announce" {
		outcome += fmt.Sprintf(":installed=%d", installed)
	}
	return fs, outcome, queued
}

func c24Pop(m uint8) int {
	n := 0
	for ; m != 0; m &= m - 1 {
		n++
	}
	return n
}

// restore puts the cache database back to the baseline image (a requeue copies
// the body of a persistent-store transaction into the cache) and verifies it.
func (in *c24Inst) restore() error {
	var rm []crypto.Hash
	for i := 0; i < c24NTx; i++ {
		if !c24InCache(in.st[i]) {
			tx, err := in.m.Store.CacheGetTransaction(in.hash[i])
			if err != nil {
				return err
			}
			if tx != nil {
				rm = append(rm, in.hash[i])
			}
		}
	}
	if len(rm) > 0 {
		if err := in.m.Store.CacheRemoveTransactions(rm); err != nil {
			return err
		}
	}
	now := in.m.Store.VerifDumpCache("CACHETRANSACTION")
	if len(now) != len(in.baseline) {
		return fmt.Errorf("cache image has %d keys, baseline %d", len(now), len(in.baseline))
	}
	for k, v := range in.baseline {
		if now[k] != v {
			return fmt.Errorf("cache image differs from baseline at %s", k)
		}
	}
	return nil
}

func c24CfgString(t *c24Tier, cfg []c24Agg) string {
	var p []string
	for k, a := range cfg {
		p = append(p, fmt.Sprintf("P%d%s@%s/%d:%d", k, c24Mask(a.set), t.ageName[a.age], t.comps[a.comp][0], t.comps[a.comp][1]))
	}
	return strings.Join(p, " ")
}

// c24Configs enumerates every multiset-free configuration of up to maxAggs
// proposals that the announcement guard admits: two proposals of the round
// share a transaction only if their timestamps are at least a gap apart.
func c24Configs(t *c24Tier) [][]c24Agg {
	var specs []c24Agg
	for set := 1; set < 1<<c24NTx; set++ {
		for a := range t.ages {
			for c := range t.comps {
				specs = append(specs, c24Agg{uint8(set), a, c})
			}
		}
	}
	compatible := func(x, y c24Agg) bool {
		ax, ay := c24AgeNs(t.ages[x.age]), c24AgeNs(t.ages[y.age])
		d := ax - ay
		if ay > ax {
			d = ay - ax
		}
		if x.set&y.set != 0 {
			return d >= config.SnapshotRoundGap
		}
		return true
	}
	var out [][]c24Agg
	var rec func(start int, cur []c24Agg)
	rec = func(start int, cur []c24Agg) {
		if len(cur) >= t.minAggs {
			out = append(out, append([]c24Agg(nil), cur...))
		}
		if len(cur) == t.maxAggs {
			return
		}
	next:
		for i := start; i < len(specs); i++ {
			for _, o := range cur {
				if !compatible(o, specs[i]) {
					continue next
				}
			}
			rec(i+1, append(cur, specs[i]))
		}
	}
	rec(0, nil)
	if !t.oldestNarrow {
		return out
	}
	// narrow use of the oldest age: only for a proposal that shares a transaction
	// with a proposal aged gap+1, all proposals of the configuration incomplete
	// (one expiry pass retires both: the order of the pass matters)
	kept := out[:0]
next2:
	for _, cfg := range out {
		hasOldest := false
		for k, a := range cfg {
			if a.age != t.oldest {
				continue
			}
			hasOldest = true
			ok := len(cfg) == 1 // alone: for the announcement that overlaps it
			for j, b := range cfg {
				if j != k && a.set&b.set != 0 && b.age == t.canon {
					ok = true
				}
			}
			if !ok {
				continue next2
			}
		}
		for _, a := range cfg {
			if cr := t.comps[a.comp]; hasOldest && cr[0] >= 0 && cr[1] == cr[0] {
				continue next2
			}
		}
		kept = append(kept, cfg)
	}
	return kept
}

func c24Tiers(c *verifmc.Check) []*c24Tier {
	ages3, names3 := []uint64{11, 10, 1}, []string{"gap+1", "gap", "1ns"}
	ages4, names4 := []uint64{22, 11, 10, 1}, []string{"2gap+2", "gap+1", "gap", "1ns"}
	comps3 := [][2]int{{-1, -1}, {0, -1}, {0, 0}}
	comps4 := [][2]int{{-1, -1}, {0, -1}, {0, 0}, {2, 2}}
	if !c.Thorough() {
		return []*c24Tier{{name: "upto2", states: []int{c24Uc, c24Us, c24Un, c24Fc}, maxAggs: 2, ages: ages4, ageName: names4, comps: comps3, depth2: -1, canon: 1, oldest: 0, oldestNarrow: true, reps: 3, companions: 4,
			pairStates: []int{c24Uc, c24Un, c24Fc}}}
	}
	small := []int{c24Uc, c24Un, c24Fc}
	return []*c24Tier{
		{name: "upto2-wide", states: []int{c24Uc, c24Us, c24Un, c24Fc, c24Ub, c24Fn}, maxAggs: 2, ages: ages3, ageName: names3, comps: comps3, depth2: -1, canon: 0, oldest: -1, reps: 8, companions: 4},
		{name: "upto2-very-old", states: small, maxAggs: 2, ages: ages4, ageName: names4, comps: comps4, depth2: -1, canon: 1, oldest: 0, reps: 8, companions: 4},
		{name: "three", states: small, minAggs: 3, maxAggs: 3, ages: ages3, ageName: names3, comps: comps3, depth2: -1, canon: 0, oldest: -1, reps: 8, companions: 4},
		{name: "two-then-second-event", states: small, minAggs: 2, maxAggs: 2, ages: ages3, ageName: names3, comps: comps3, depth2: 2, canon: 0, oldest: -1, reps: 8, companions: 4},
	}
}

type c24Stats struct {
	sharedLive, orderSensitive, completeKept, agedKept atomic.Int64
	resetExcluded, overflowQueued, dupGuarded          atomic.Int64
	sampled, single, planned                           atomic.Int64
	orderReps, orderOnly                               atomic.Int64
	hookQueued, hookFinalQueued, announced             atomic.Int64

	fmu      sync.Mutex
	found    map[string]*c24Report
	perClass map[string]int64
}

func TestMC_C24(t *testing.T) {
	c := verifmc.Start(t, "C24", "exploration")
	defer c.Finish()
	c.SetRule("real 7-node fixture node; its own Chain is given every configuration of 0..N local proposals (CosiAggregators + CosiVerifiers as cosiSendAnnouncement installs them) over 4 real deposit transactions: every non-empty transaction set per proposal, every overlap the announcement guard admits (shared transaction only with timestamps >= SnapshotRoundGap apart, the later proposal owning the verifier entry), every age and every commitments/responses class per proposal (classes under expiry and under the reset without owned transactions, one age per non-sharing proposal under events that do not read timestamps; quick: the age 2gap+2 only for an incomplete proposal sharing a transaction with an incomplete one aged gap+1, under expiry; quick: configurations of two proposals use the states {Uc,Un,Fc}, single proposals all four); x every ledger/cache state of every referenced transaction (unreferenced ones are unfinalized with a cache body, the most observable state); x every enabled event: expireCosiAggregators(now), retryCosiSnapshot(P) per proposal, resetCosiStateForNewRound(owned) for every owned subset of one proposal, AppendSelfEmpty on a full CachePool, cosiSendAnnouncement deferred by the round cutoff and by the duplicate guard, cosiSendAnnouncement really installing a new proposal that takes over transactions of a proposal aged gap / gap+1 / 2gap+2 which the expiry pass has not visited yet (every transaction of the displaced proposal is then judged), cosiHook(self proposal) rejected by checkActionSanity because a transaction of the batch has been finalized meanwhile / the chain is not broadcasted / the node is slow in catching up (thorough adds every sequence of two events, a wider alphabet and three proposals). After each event the raw queue keys are read and the queue is drained with CacheRetrieveTransactions(255). A case is distinct by (part, transaction states, configuration, event sequence)")
	c.Assume("CoSi maps are built in-package the way cosiSendAnnouncement builds them (no network round trip); the deferred-announcement events run against a copy of the real cache round that holds one earlier snapshot; transactions handed over by the queue loop (overflow / deferred proposals) are not in flight elsewhere except where the duplicate guard is the subject; one node instance serves all cases of one transaction-state vector: its cache database is compared with the baseline image after every case and replaced by an empty one every 256 cases",
		"expireCosiAggregators walks the aggregator map in Go's randomized iteration order: an expiry case that retires two or more proposals is executed up to 3 times (thorough 8) with the proposals inserted alternately oldest / youngest first (a small Go map is visited in insertion order with probability 7/8, measured), and failing in some execution is the violation; for such a case the determinism gate is 'reproduces within 16 executions' in each of its 5 re-runs instead of 'reproduces in every execution'")
	// the kernel clock is moved to the fixture's "now" (3.5 days after the
	// genesis epoch): the events that go through cosiHook stamp the proposal with
	// clock.Now and ask which node is being removed at that time
	clock.MockDiff(time.Unix(0, int64(mcNet7.Epoch+uint64(84*time.Hour))).Sub(time.Now()))
	defer clock.Reset()
	st := &c24Stats{found: map[string]*c24Report{}, perClass: map[string]int64{}}
	complete := true
	var parts []string
	for _, tier := range c24Tiers(c) {
		seqs := "single events"
		if tier.depth2 >= 0 {
			seqs = "single events and every second event after a partial retirement"
		}
		parts = append(parts, fmt.Sprintf("%s: tx states %v, %d..%d proposals, ages %v, %d completion classes, %s", tier.name, c24Names(tier.states), tier.minAggs, tier.maxAggs, tier.ageName, len(tier.comps), seqs))
		if !c24RunPart(c, tier, st) {
			complete = false
			break
		}
	}
	c.Set("parts", parts)

	// report the smallest case of every violated class, after re-executing it
	// five times on fresh nodes (determinism gate)
	keys := make([]string, 0, len(st.found))
	for k := range st.found {
		keys = append(keys, k)
	}
	sort.Strings(keys)
	for _, k := range keys {
		r := st.found[k]
		c.ViolationChecked(k, r.desc, r.replay, func() bool {
			in, err := c24NewInst(r.tier, r.st)
			if err != nil {
				return false
			}
			defer in.close()
			// a case with several proposals under an event that walks the
			// aggregator map may depend on Go's map iteration order: it counts
			// as reproduced when it fails within 16 executions (insertion order
			// alternating), every other case must fail at once
			n := 1
			if last := r.seq[len(r.seq)-1].kind; len(r.cfg) >= 2 && (last == "expire" || last == "reset") {
				n = 16
			}
			for i := 0; i < n; i++ {
				in.install(r.cfg, i%2 == 1)
				for _, pe := range r.seq[:len(r.seq)-1] {
					in.apply(r.cfg, pe, false)
				}
				fs, _, _ := in.apply(r.cfg, r.seq[len(r.seq)-1], true)
				for _, f := range fs {
					if f.key == k {
						return true
					}
				}
				if err := in.restore(); err != nil {
					return false
				}
			}
			return false
		})
	}
	c.Set("failing_cases_per_class", st.perClass)
	c.Set("repeated_executions_of_multi_retirement_expiry_cases", st.orderReps.Load())
	c.Set("cases_failing_only_in_a_repeated_execution", st.orderOnly.Load())
	c.Set("single_event_cases_planned", st.planned.Load())
	c.Set("single_event_cases_executed", st.single.Load())
	c.Set("retired_while_a_later_proposal_owns_a_shared_transaction", st.sharedLive.Load())
	c.Set("finalized_listed_before_requeued", st.orderSensitive.Load())
	c.Set("complete_aged_proposals_kept_by_expiry", st.completeKept.Load())
	c.Set("incomplete_aged_proposals_kept_by_expiry", st.agedKept.Load())
	c.Set("resets_with_owned_excluded_and_others_requeued", st.resetExcluded.Load())
	c.Set("overflow_requeues", st.overflowQueued.Load())
	c.Set("announcements_installed_over_an_aged_unexpired_proposal", st.announced.Load())
	c.Set("sanity_check_deferrals_with_requeue", st.hookQueued.Load())
	c.Set("sanity_check_deferrals_for_a_finalized_companion_with_requeue", st.hookFinalQueued.Load())
	c.Set("duplicate_guard_defers_with_requeue", st.dupGuarded.Load())
	if complete {
		c.Require(st.single.Load() == st.planned.Load(), "planned %d single-event cases, executed %d", st.planned.Load(), st.single.Load())
		c.Require(st.sharedLive.Load() > 0, "no proposal was retired while a later proposal owned one of its transactions")
		c.Require(st.orderSensitive.Load() > 0, "no retired proposal listed a finalized transaction before a re-queued one")
		c.Require(st.completeKept.Load() > 0, "expiry never met a complete aged proposal")
		c.Require(st.announced.Load() > 0, "no announcement was installed over an aged proposal")
		c.Require(st.hookFinalQueued.Load() > 0 && st.hookQueued.Load() > st.hookFinalQueued.Load(), "cosiHook deferral paths were not exercised: %d %d", st.hookQueued.Load(), st.hookFinalQueued.Load())
		c.Require(st.resetExcluded.Load() > 0 && st.overflowQueued.Load() > 0 && st.dupGuarded.Load() > 0, "reset / overflow / duplicate-guard paths were not exercised: %d %d %d", st.resetExcluded.Load(), st.overflowQueued.Load(), st.dupGuarded.Load())
		c.Require(c.OutcomeCount("expire:retired=1:queued=2") > 0 && c.OutcomeCount("expire:retired=0:queued=0") > 0, "expiry outcomes are vacuous")
	}
}

// c24RunPart enumerates one part (alphabet) completely; false when the wall
// clock cap stopped it.
func c24RunPart(c *verifmc.Check, tier *c24Tier, stats *c24Stats) bool {
	radices := make([]int, c24NTx)
	for i := range radices {
		radices[i] = len(tier.states)
	}
	nVec := int(verifmc.ProductSize(radices))
	var configs [][]c24Agg
	{
		in, err := c24NewInst(tier, [c24NTx]int{})
		c.Require(err == nil, "fixture: %v", err)
		if err != nil {
			return false
		}
		n := len(in.m.Node.NodesListWithoutState(in.now, true))
		c.Require(in.base >= 2 && in.base+2 <= n, "threshold %d of %d nodes leaves no room for the completion classes", in.base, n)
		if in.base < 2 || in.base+2 > n {
			in.close()
			return false
		}
		c.Set("consensus_threshold", in.base)
		// planned number of single-event cases: every enumerated event of every
		// configuration times every state assignment of the transactions it references
		configs = c24Configs(tier)
		var planned int64
		perKind := map[string]int64{}
		for _, cfg := range configs {
			var union uint8
			for _, a := range cfg {
				union |= a.set
			}
			in.install(cfg, false)
			for _, e := range in.enabled(cfg) {
				if !c24Runs(tier, cfg, e) {
					continue
				}
				k := c24Planned(tier, cfg, e, in.refOf(cfg, []c24Event{e}))
				planned += k
				perKind[e.kind] += k
			}
		}
		in.close()
		stats.planned.Add(planned)
		c.Set("planned_per_event:"+tier.name, perKind)
		c.Set("configurations:"+tier.name, len(configs))
		c.Set("tx_state_vectors:"+tier.name, nVec)
	}

	var stopped atomic.Bool
	done := c.ParallelN(nVec, "transaction state vectors of part "+tier.name, func(w, vi int) {
		if stopped.Load() {
			return
		}
		d := verifmc.Digits(radices, int64(vi), nil)
		var st [c24NTx]int
		var nonDefault uint8
		vec := ""
		for i := range st {
			st[i] = tier.states[d[i]]
			if st[i] != c24Uc {
				nonDefault |= 1 << uint(i)
			}
			vec += c24StateName[st[i]]
		}
		in, err := c24NewInst(tier, st)
		c.Require(err == nil, "fixture %s: %v", vec, err)
		if err != nil {
			return
		}
		defer func() { in.close() }()
		cases := 0
		replay := func(cfg []c24Agg, seq []c24Event, q uint8) map[string]any {
			var aggs []map[string]any
			for k, a := range cfg {
				nc, nr := in.counts(a)
				aggs = append(aggs, map[string]any{"proposal": fmt.Sprintf("P%d", k), "transactions": c24Mask(a.set), "age": in.tier.ageName[a.age], "commitments": nc, "responses": nr})
			}
			var es []string
			for _, e := range seq {
				es = append(es, e.String())
			}
			return map[string]any{"fixture": "newMCNode(mcNet7,0)", "tx_states": vec, "threshold": in.base, "proposals": aggs, "events": es, "queue_after": c24Mask(q)}
		}
		ci, evIndex := 0, 0
		runCase := func(cfg []c24Agg, cs string, prefix []c24Event, e c24Event) {
			evIndex++
			in.install(cfg, false)
			for _, pe := range prefix {
				in.apply(cfg, pe, false)
			}
			aliveBefore, _ := in.liveMask()
			ownedBefore, _, _ := in.ownedNow()
			fs, outcome, q := in.apply(cfg, e, true)
			seq := append(append([]c24Event(nil), prefix...), e)
			if len(prefix) == 0 {
				stats.single.Add(1)
			}
			c.Eval(1)
			// An expiry pass that retires several proposals walks the aggregator
			// map in Go's randomized order: execute the case again, inserting the
			// proposals alternately youngest / oldest first (the insertion order is
			// visited first with probability 7/8), until it fails or tier.reps
			// executions are done. Failing in some execution is the violation.
			if e.kind == "expire" && len(fs) == 0 {
				retired := 0
				for k := range cfg {
					if aliveBefore[k] && in.chain.CosiAggregators[in.live[k].Hash] == nil {
						retired++
					}
				}
				for r := 1; retired >= 2 && r < tier.reps && len(fs) == 0; r++ {
					if err := in.restore(); err != nil {
						c.Require(false, "instance reuse is unsound for %s %s %v: %v", vec, cs, seq, err)
					}
					in.install(cfg, r%2 == 1)
					for _, pe := range prefix {
						in.apply(cfg, pe, false)
					}
					fs, outcome, q = in.apply(cfg, e, true)
					c.Eval(1)
					stats.orderReps.Add(1)
					if len(fs) > 0 {
						stats.orderOnly.Add(1)
					}
				}
			}
			c.AddTraces(1)
			c.Distinct(tier.name + "|" + vec + "|" + cs + "|" + fmt.Sprint(seq))
			c.Outcome(outcome)
			for _, f := range fs {
				// keep the smallest failing case per class (deterministic report)
				rank := [6]int{len(cfg), c24Pop(in.refOf(cfg, seq)), c24Pop(nonDefault), len(seq), vi, ci*4096 + evIndex}
				stats.fmu.Lock()
				stats.perClass[f.key]++
				if old, ok := stats.found[f.key]; !ok || c24Less(rank, old.rank) {
					stats.found[f.key] = &c24Report{rank: rank, desc: f.desc + " — " + cs + " tx=" + vec + " events=" + fmt.Sprint(seq), replay: replay(cfg, seq, q),
						tier: tier, st: st, cfg: append([]c24Agg(nil), cfg...), seq: seq}
				}
				stats.fmu.Unlock()
			}
			// coverage facts used by the vacuity guards
			aliveAfter, _ := in.liveMask()
			ownedAfter, _, _ := in.ownedNow()
			for k, a := range cfg {
				if !aliveBefore[k] {
					continue
				}
				nc, nr := in.counts(a)
				aged := c24AgeNs(in.tier.ages[a.age]) >= config.SnapshotRoundGap
				if e.kind == "expire" && aged && aliveAfter[k] {
					if nc >= in.base && nr == nc {
						stats.completeKept.Add(1)
					} else {
						stats.agedKept.Add(1)
					}
				}
				if !aliveAfter[k] {
					if a.set&ownedAfter != 0 {
						stats.sharedLive.Add(1)
					}
					// a finalized transaction listed before one that must be re-queued
					seenFinal := false
					for i := 0; i < c24NTx; i++ {
						if a.set&(1<<uint(i)) == 0 {
							continue
						}
						if c24Final(st[i]) {
							seenFinal = true
						} else if seenFinal && q&(1<<uint(i)) != 0 {
							stats.orderSensitive.Add(1)
						}
					}
				}
			}
			if e.kind == "reset" && e.mask != 0 && q != 0 {
				stats.resetExcluded.Add(1)
			}
			if e.kind == "overflow" && q != 0 {
				stats.overflowQueued.Add(1)
			}
			if e.kind == "announce" && strings.HasSuffix(outcome, "installed=1") {
				stats.announced.Add(1)
			}
			if strings.HasPrefix(e.kind, "hook-") && q != 0 {
				stats.hookQueued.Add(1)
				if e.kind == "hook-finalized" {
					stats.hookFinalQueued.Add(1)
				}
			}
			if e.kind == "defer-dup" && q != 0 && ownedBefore&e.mask != 0 {
				stats.dupGuarded.Add(1)
			}
			if len(fs) == 0 && len(cfg) >= 2 && q != 0 && c24Pop(nonDefault) >= 2 && stats.sampled.Add(1) <= 6 {
				c.Sample(replay(cfg, seq, q))
			}
			if err := in.restore(); err != nil {
				c.Require(false, "instance reuse is unsound for %s %s %v: %v", vec, cs, seq, err)
			}
			// deleted queue keys pile up in Badger's memtable and slow every
			// iterator down: continue on a fresh cache database after a while
			if cases++; cases%c24Recycle == 0 {
				err := in.renewCache()
				c.Require(err == nil, "cache renewal %s: %v", vec, err)
				if err != nil {
					panic(err)
				}
			}
		}
		for cj, cfg := range configs {
			ci, evIndex = cj, 0
			if ci%16 == 0 && c.Expired("configurations of one state vector") {
				stopped.Store(true)
				return
			}
			var union uint8
			for _, a := range cfg {
				union |= a.set
			}
			// transactions whose state is outside the alphabet of this configuration
			var outside uint8
			for i := 0; i < c24NTx; i++ {
				ok := false
				for _, a := range tier.alphabet(cfg) {
					ok = ok || a == st[i]
				}
				if !ok {
					outside |= 1 << uint(i)
				}
			}
			if outside&union != 0 {
				continue
			}
			in.install(cfg, false)
			evs := in.enabled(cfg)
			cs := c24CfgString(tier, cfg)
			for _, e := range evs {
				if !c24Runs(tier, cfg, e) {
					continue
				}
				ref := in.refOf(cfg, []c24Event{e})
				// an unreferenced transaction is only enumerated in its default state,
				// a referenced one in the alphabet of the configuration
				if nonDefault&^ref == 0 && outside&ref == 0 && c24EventOK(e, st) {
					runCase(cfg, cs, nil, e)
				}
				if tier.depth2 < 0 || len(cfg) > tier.depth2 || len(cfg) == 0 {
					continue
				}
				// second events from the state the first one leaves behind. Only a
				// first event that retires some proposals and keeps others leads to a
				// chain state outside the initial product: the deferred-proposal
				// events do not touch the CoSi maps, a reset empties them.
				if e.kind != "expire" && e.kind != "retry" {
					continue
				}
				in.install(cfg, false)
				in.apply(cfg, e, false)
				if _, alive := in.liveMask(); alive == 0 || alive == len(cfg) {
					if err := in.restore(); err != nil {
						c.Require(false, "instance reuse is unsound: %v", err)
					}
					continue
				}
				evs2 := in.enabled(cfg)
				if err := in.restore(); err != nil {
					c.Require(false, "instance reuse is unsound: %v", err)
				}
				for _, e2 := range evs2 {
					if !c24Runs(tier, cfg, e2) {
						continue
					}
					if ref2 := in.refOf(cfg, []c24Event{e, e2}); nonDefault&^ref2 != 0 || outside&ref2 != 0 || !c24EventOK(e2, st) {
						continue
					}
					runCase(cfg, cs, []c24Event{e}, e2)
				}
			}
		}
	})
	return done && !stopped.Load()
}
