//go:build verif

package kernel

import (
	"fmt"
	"testing"

	"github.com/MixinNetwork/mixin/common"
	"github.com/MixinNetwork/mixin/config"
	"github.com/MixinNetwork/mixin/crypto"
	"github.com/MixinNetwork/mixin/storage"
	"github.com/MixinNetwork/mixin/verifmc"
)

// C18 — round hashes are a deterministic function of the round's snapshot set.
// Bounded-exhaustive enumeration (E1): every non-empty subset of a 6-snapshot
// pool with forced equal timestamps and gap boundaries, under EVERY order,
// plus a 64-snapshot set under an enumerated family of 4096 orders, for
// 2 node ids x 2 round numbers, through the three real implementations
//   common.ComputeRoundHash            (live node, closing a round)
//   storage.computeRoundHash           (startup graph validator; reached through
//                                       harness/storage/verif_c18.go)
//   (*CacheRound).asFinal              (live node wrapper) and (*CacheRound).Gap
// Oracle: one (start,end,hash) per set whatever the order and the
// implementation; failure (span >= gap) agreed on too; distinct sets give
// distinct hashes.

type c18Res struct {
	panicked bool
	start    uint64
	end      uint64
	hash     crypto.Hash
}

func (r c18Res) String() string {
	if r.panicked {
		return "panic"
	}
	return fmt.Sprintf("(start=%d end=%d hash=%s)", r.start, r.end, r.hash)
}

type c18Impl struct {
	name string
	run  func(node crypto.Hash, number uint64, in []*common.Snapshot) c18Res
}

var c18Impls = []c18Impl{
	{"common.ComputeRoundHash", func(node crypto.Hash, number uint64, in []*common.Snapshot) c18Res {
		var r c18Res
		if p := verifmc.Catch(func() { r.start, r.end, r.hash = common.ComputeRoundHash(node, number, in) }); p != nil {
			return c18Res{panicked: true}
		}
		return r
	}},
	{"storage.computeRoundHash", func(node crypto.Hash, number uint64, in []*common.Snapshot) c18Res {
		topo := make([]*common.SnapshotWithTopologicalOrder, len(in))
		for i, s := range in {
			topo[i] = &common.SnapshotWithTopologicalOrder{Snapshot: s, TopologicalOrder: uint64(i)}
		}
		var r c18Res
		if p := verifmc.Catch(func() { r.start, r.end, r.hash = storage.VerifComputeRoundHash(node, number, topo) }); p != nil {
			return c18Res{panicked: true}
		}
		return r
	}},
	{"kernel.CacheRound.asFinal", func(node crypto.Hash, number uint64, in []*common.Snapshot) c18Res {
		cache := &CacheRound{NodeId: node, Number: number, Snapshots: in}
		var f *FinalRound
		if p := verifmc.Catch(func() { f = cache.asFinal() }); p != nil {
			return c18Res{panicked: true}
		}
		if f == nil || f.NodeId != node || f.Number != number {
			return c18Res{} // zero result: compared unequal with every real one
		}
		return c18Res{start: f.Start, end: f.End, hash: f.Hash}
	}},
}

type c18Set struct {
	id      string // canonical id of the SET (not of the order)
	members []*common.Snapshot
	offsets []string
	minTs   uint64
	maxTs   uint64
	ties    bool
}

func c18NewSet(id string, t uint64, members []*common.Snapshot) *c18Set {
	s := &c18Set{id: id, members: members, minTs: ^uint64(0)}
	seen := map[uint64]bool{}
	for _, m := range members {
		if m.Timestamp < s.minTs {
			s.minTs = m.Timestamp
		}
		if m.Timestamp > s.maxTs {
			s.maxTs = m.Timestamp
		}
		if seen[m.Timestamp] {
			s.ties = true
		}
		seen[m.Timestamp] = true
		s.offsets = append(s.offsets, fmt.Sprintf("t+%d/%s", m.Timestamp-t, m.Hash.String()[:8]))
	}
	return s
}

func c18Snapshot(node crypto.Hash, number, ts uint64, txSeed string) *common.Snapshot {
	s := &common.Snapshot{Version: common.SnapshotVersionCommonEncoding, NodeId: node, RoundNumber: number, Timestamp: ts}
	s.AddTransaction(crypto.Blake3Hash([]byte(txSeed)))
	s.Hash = s.PayloadHash()
	return s
}

// c18Pool: timestamps {t,t,t,t+1,t+gap-1,t+gap}; hashes are real payload
// hashes; member 1 is ground (deterministic search over the transaction seed)
// to share its first hash byte with member 0, so that a tie-break looking at a
// hash prefix only is exercised too.
func c18Pool(node crypto.Hash, number, t uint64, offs []uint64) []*common.Snapshot {
	pool := make([]*common.Snapshot, len(offs))
	for i, o := range offs {
		pool[i] = c18Snapshot(node, number, t+o, fmt.Sprintf("c18-tx-%d", i))
	}
	for k := 0; k < 1<<20; k++ {
		s := c18Snapshot(node, number, t, fmt.Sprintf("c18-tx-1-%d", k))
		if s.Hash[0] == pool[0].Hash[0] && s.Hash != pool[0].Hash {
			pool[1] = s
			break
		}
	}
	return pool
}

func TestMC_C18(t *testing.T) {
	c := verifmc.Start(t, "C18", "exploration")
	defer c.Finish()
	gap := config.SnapshotRoundGap
	c.SetRule("2 node ids x 2 round numbers x {all version 2, synthetic version 2/3 mix} x every non-empty subset (63) of a 6-snapshot pool with timestamps {t,t,t,t+1,t+gap-1,t+gap} (thorough: 3 x 3 combinations, 7-snapshot pool with t+gap/2 added, 127 subsets) (real payload hashes, two equal-timestamp members sharing their first hash byte) x EVERY permutation of the subset (1956 orders per combination and variant; thorough 13699); plus one 64-snapshot set (4 timestamp groups of 16: t, t+1, t+gap/2, t+gap-1) under the 2048 affine orders i->(a*i+b) mod 64 (a odd; includes all 64 rotations; each is also run reversed, which lands on another member of the same family, so 2048 distinct orders); each order is run through common.ComputeRoundHash, storage.computeRoundHash, CacheRound.asFinal and CacheRound.Gap; a case is distinct by (node, round, version variant, set, order)")
	c.Assume("only snapshot version 2 is decodable: the version mix clause is exercised with synthetic Version=3 structs that keep their version-2 payload hash",
		"storage.computeRoundHash is reached through the overlay-only forwarder harness/storage/verif_c18.go",
		"start/end of a round are the smallest/largest member timestamp; a set spanning >= config.SnapshotRoundGap must be refused (panic) by every implementation, a narrower one by none")

	t0 := uint64(1700000000) * 1e9
	nodes := []crypto.Hash{crypto.Blake3Hash([]byte("c18-node-A")), crypto.Blake3Hash([]byte("c18-node-B"))}
	numbers := []uint64{7, 7 + 1<<40}
	offs := []uint64{0, 0, 0, 1, gap - 1, gap}
	if c.Thorough() {
		// deeper tier: a 7th pool member in the middle of the gap, 3 x 3 (node, round) combinations
		nodes = append(nodes, crypto.Blake3Hash([]byte("c18-node-C")))
		numbers = append(numbers, 0)
		offs = []uint64{0, 0, 0, 1, gap / 2, gap - 1, gap}
	}
	c.Set("pool_offsets_from_t", fmt.Sprint(offs))

	hashOwner := map[crypto.Hash]string{} // hash -> node|number|set
	var orders, sets int64

	// evaluate runs one order of one set and compares with the canonical result
	evaluate := func(node crypto.Hash, number uint64, variant string, set *c18Set, order []int, canon *[]c18Res) {
		replay := map[string]any{"node": node.String(), "round": number, "variant": variant, "set": set.id, "members": set.offsets, "order": append([]int{}, order...), "t": t0, "gap": gap}
		res := make([]c18Res, len(c18Impls))
		for k, im := range c18Impls {
			in := make([]*common.Snapshot, len(order))
			for i, o := range order {
				in[i] = set.members[o]
			}
			res[k] = im.run(node, number, in)
			c.Eval(1)
		}
		// live cache round bounds
		var gs, ge uint64
		gin := make([]*common.Snapshot, len(order))
		for i, o := range order {
			gin[i] = set.members[o]
		}
		gp := verifmc.Catch(func() { gs, ge = (&CacheRound{NodeId: node, Number: number, Snapshots: gin}).Gap() })
		c.Eval(1)
		orders++
		c.Distinct(fmt.Sprintf("%s|%d|%s|%s|%v", node, number, variant, set.id, order))

		desc := func() string {
			return fmt.Sprintf("node %s round %d %s set %s %v order %v", node.String()[:8], number, variant, set.id, set.offsets, order)
		}
		// 1. implementations agree (on failure too)
		for k := 1; k < len(res); k++ {
			if res[k] != res[0] {
				kind := "value"
				if res[k].panicked != res[0].panicked {
					kind = "failure"
				}
				c.Violation(fmt.Sprintf("impl-disagree:%s:%s-vs-%s", kind, c18Impls[0].name, c18Impls[k].name),
					fmt.Sprintf("%s: %s gives %s, %s gives %s", desc(), c18Impls[0].name, res[0], c18Impls[k].name, res[k]), replay)
			}
		}
		if (gp != nil) != res[0].panicked || (gp == nil && (gs != res[0].start || ge != res[0].end)) {
			c.Violation("impl-disagree:bounds:common.ComputeRoundHash-vs-kernel.CacheRound.Gap",
				fmt.Sprintf("%s: ComputeRoundHash gives %s, CacheRound.Gap gives start=%d end=%d panic=%v", desc(), res[0], gs, ge, gp != nil), replay)
		}
		// 2. order independence, per implementation
		if *canon == nil {
			*canon = res
		} else {
			for k := range res {
				if res[k] != (*canon)[k] {
					c.Violation("order-dependent:"+c18Impls[k].name,
						fmt.Sprintf("%s: %s gives %s, the first order of the same set gave %s", desc(), c18Impls[k].name, res[k], (*canon)[k]), replay)
				}
			}
		}
		// 3. meaning of start / end / failure
		wide := set.maxTs-set.minTs >= gap
		for k := range res {
			switch {
			case wide && !res[k].panicked:
				c.Violation("gap-not-enforced:"+c18Impls[k].name, fmt.Sprintf("%s: spans %d >= gap %d but %s returns %s", desc(), set.maxTs-set.minTs, gap, c18Impls[k].name, res[k]), replay)
			case !wide && res[k].panicked:
				c.Violation("fails-within-gap:"+c18Impls[k].name, fmt.Sprintf("%s: spans %d < gap %d but %s panics", desc(), set.maxTs-set.minTs, gap, c18Impls[k].name), replay)
			case !wide && (res[k].start != set.minTs || res[k].end != set.maxTs):
				c.Violation("start-end-not-min-max:"+c18Impls[k].name, fmt.Sprintf("%s: %s returns %s, member timestamps range %d..%d", desc(), c18Impls[k].name, res[k], set.minTs, set.maxTs), replay)
			}
		}
		switch {
		case res[0].panicked:
			c.Outcome("refused:span>=gap")
		case set.ties:
			c.Outcome("hash:set-with-equal-timestamps")
		default:
			c.Outcome("hash:all-timestamps-distinct")
		}
		// 4. injectivity over sets (per implementation)
		for k := range res {
			if res[k].panicked {
				continue
			}
			id := fmt.Sprintf("%s|%d|%s", node, number, set.id)
			if prev, ok := hashOwner[res[k].hash]; ok && prev != id {
				c.Violation("hash-collision", fmt.Sprintf("%s: %s hash %s is also the round hash of %s", desc(), c18Impls[k].name, res[k].hash, prev), replay)
			} else {
				hashOwner[res[k].hash] = id
			}
		}
	}

	for _, node := range nodes {
		for _, number := range numbers {
			pool := c18Pool(node, number, t0, offs)
			c.Require(pool[0].Hash[0] == pool[1].Hash[0] && pool[0].Hash != pool[1].Hash, "pool members 0/1 do not share a first hash byte")
			for i := range pool {
				for j := i + 1; j < len(pool); j++ {
					c.Require(pool[i].Hash != pool[j].Hash, "pool hashes collide")
				}
			}
			// synthetic version mix: odd members carry Version 3, same hash
			mixed := make([]*common.Snapshot, len(pool))
			for i, s := range pool {
				cp := *s
				if i%2 == 1 {
					cp.Version = common.SnapshotVersionCommonEncoding + 1
				}
				mixed[i] = &cp
			}
			for vi, src := range [][]*common.Snapshot{pool, mixed} {
				variant := []string{"v2", "v2/v3-mix(synthetic)"}[vi]
				verifmc.Subsets(len(src), func(mask uint32, members []int) {
					if mask == 0 {
						return
					}
					ms := make([]*common.Snapshot, len(members))
					for i, m := range members {
						ms[i] = src[m]
					}
					set := c18NewSet(fmt.Sprintf("pool:%0*b", len(src), mask), t0, ms)
					if vi == 0 {
						sets++
					}
					var canon []c18Res
					verifmc.Permutations(len(ms), func(p []int) {
						evaluate(node, number, variant, set, p, &canon)
					})
				})
			}
			// 64-element set
			big := make([]*common.Snapshot, 64)
			grp := []uint64{0, 1, gap / 2, gap - 1}
			for i := range big {
				big[i] = c18Snapshot(node, number, t0+grp[i%4], fmt.Sprintf("c18-big-%d", i))
			}
			set := c18NewSet("big64", t0, big)
			set.offsets = set.offsets[:8] // the rest follows the same rule; keep replays small
			sets++
			var canon []c18Res
			order := make([]int, 64)
			for a := 1; a < 64; a += 2 {
				for b := 0; b < 64; b++ {
					for i := range order {
						order[i] = (a*i + b) % 64
					}
					evaluate(node, number, "v2", set, order, &canon)
					for i, j := 0, 63; i < j; i, j = i+1, j-1 {
						order[i], order[j] = order[j], order[i]
					}
					evaluate(node, number, "v2", set, order, &canon)
				}
			}
		}
	}
	c.Set("sets", sets)
	c.Set("orders", orders)
	c.Set("distinct_round_hashes", int64(len(hashOwner)))
	c.Sample(map[string]any{"set": "pool:000111 = three snapshots at the same timestamp t", "orders": 6, "expect": "one (start,end,hash) from all three implementations"})
	c.Sample(map[string]any{"set": "pool:100001 = {t, t+gap}", "orders": 2, "expect": "panic in common, storage, asFinal and Gap alike"})
	c.Sample(map[string]any{"set": "pool:101000 = {t+1, t+gap}", "orders": 2, "expect": "span gap-1: accepted, start=t+1 end=t+gap"})
	c.Sample(map[string]any{"set": "big64", "orders": 4096, "expect": "one hash"})

	// vacuity: expected numbers derived from the pool (quick: 35 of the 63 subsets are closable, 28 span >= gap)
	combos := int64(len(nodes) * len(numbers))
	var closable, perms int64
	verifmc.Subsets(len(offs), func(mask uint32, members []int) {
		if mask == 0 {
			return
		}
		lo, hi, f := ^uint64(0), uint64(0), int64(1)
		for i, m := range members {
			lo, hi, f = min(lo, offs[m]), max(hi, offs[m]), f*int64(i+1)
		}
		perms += f
		if hi-lo < gap {
			closable++
		}
	})
	c.Set("orders_per_combination_pool", perms)
	c.Require(sets == combos*(1<<len(offs)), "expected %d sets, got %d", combos*(1<<len(offs)), sets)
	c.Require(int64(len(hashOwner)) == combos*(closable+1), "expected %d distinct round hashes (%d closable pool subsets + big64 per node x round), got %d", combos*(closable+1), closable, len(hashOwner))
	c.Require(c.OutcomeCount("refused:span>=gap") > 0 && c.OutcomeCount("hash:set-with-equal-timestamps") > 0 && c.OutcomeCount("hash:all-timestamps-distinct") > 0, "vacuous C18 run")
	c.Require(orders == combos*(2*perms+4096), "expected %d orders, ran %d", combos*(2*perms+4096), orders)
}
