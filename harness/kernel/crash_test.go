//go:build verif

package kernel

import (
	"bytes"
	"errors"
	"fmt"
	"os"
	"path/filepath"
	"sync"
	"sync/atomic"
	"time"

	"github.com/MixinNetwork/mixin/common"
	"github.com/MixinNetwork/mixin/crypto"
	"github.com/MixinNetwork/mixin/storage"
	"github.com/MixinNetwork/mixin/verifmc"
	"github.com/MixinNetwork/mixin/verifmc/fixc"
	"github.com/dgraph-io/badger/v4"
)

// Crash engine (E4) for the kernel-level checks C21 / C22.
//
// A workload is a list of *finalization deliveries*: each one hands a fully
// signed snapshot plus its transactions to the real
// (*Chain).cosiHandleFinalization, which performs every durable write of the
// finalization path itself (validate+lock+persist transactions, round
// transition, WriteSnapshot via TopoWrite, consensus marker via
// reloadConsensusState, node operation lock). The Badger seam numbers every
// commit on the snapshot DB; "crash at k" makes commit k and all later ones
// fail, so the durable state is exactly commits 1..k-1. The in-memory node is
// then abandoned, the directory reopened and a new node built by SetupNode.

var errMCCrash = errors.New("verif: crash injected")

type mcCrashCtl struct {
	count atomic.Int64
	cut   int64 // commits with index >= cut fail (0 = never)
	point bool  // commits are scheduling points
	log   []string
	mu    sync.Mutex
}

var mcCrashCtls sync.Map // snapshots dir -> *mcCrashCtl
var mcCrashHookOnce sync.Once

func mcInstallCrashHook() {
	mcCrashHookOnce.Do(func() {
		badger.VerifHook = func(kind, dir string, writes int) error {
			if kind != "commit" {
				return nil
			}
			v, ok := mcCrashCtls.Load(dir)
			if !ok {
				return nil
			}
			ctl := v.(*mcCrashCtl)
			if ctl.point {
				verifmc.Point("commit")
			}
			n := ctl.count.Add(1)
			if ctl.cut > 0 && n >= ctl.cut {
				return errMCCrash
			}
			return nil
		}
	})
}

func mcScratchDir(prefix string) string {
	base := os.Getenv("VERIF_SCRATCH")
	if base == "" {
		base = os.TempDir()
	}
	d, err := os.MkdirTemp(base, prefix)
	if err != nil {
		panic(err)
	}
	return d
}

// ---- deterministic CoSi signing -------------------------------------------------

func mcDetCosiSign(net *fixc.Net, publics []*crypto.Key, signerIdx []int, msg crypto.Hash) *crypto.CosiSignature {
	priv := map[crypto.Key]*crypto.Key{}
	for i := range net.Signers {
		k := net.Signers[i].PrivateSpendKey
		priv[net.Signers[i].PublicSpendKey] = &k
	}
	nonces := map[int]*crypto.CosiNonce{}
	commitments := map[int]*crypto.Key{}
	for _, i := range signerIdx {
		seed := fixc.Seed64(fmt.Sprintf("cosi-nonce:%s:%d", msg.String(), i))
		n := crypto.CosiCommitNonce(bytes.NewReader(seed))
		p := n.Public()
		nonces[i], commitments[i] = n, &p
	}
	sig, err := crypto.CosiAggregateCommitment(commitments)
	if err != nil {
		panic(err)
	}
	responses := map[int]*[32]byte{}
	for _, i := range signerIdx {
		r, err := nonces[i].Response(sig, priv[*publics[i]], publics, msg)
		if err != nil {
			panic(err)
		}
		responses[i] = r
	}
	if err := sig.AggregateResponse(publics, responses, msg, true); err != nil {
		panic(err)
	}
	return sig
}

// ---- a delivery: one finalized snapshot handed to the real handler --------------

type mcDelivery struct {
	Name     string
	Chain    int // index into net.NodeIds, or -1 = elected by Elect
	Elect    byte
	NewRound bool // open round cache.Number+1 (references computed from the live state)
	TailOnly bool // drive the post-validation tail of cosiHandleFinalization directly
	TsOffset time.Duration
	Build    func(m *mcNode, ts uint64) []*common.VersionedTransaction
	// filled when executed
	Hash crypto.Hash
}

const mcCrashBase = 25 * time.Hour // hour 1 of day 1: inside the pledge window

// mcDeliver builds the snapshot against the chain's *current* in-memory state
// and calls the real cosiHandleFinalization. Returns the snapshot.
func mcDeliver(m *mcNode, d *mcDelivery) *common.Snapshot {
	ts := m.Net.Epoch + uint64(mcCrashBase+d.TsOffset)
	var chainId crypto.Hash
	if d.Chain >= 0 {
		chainId = m.Net.NodeIds[d.Chain]
	} else {
		chainId = m.Node.electSnapshotNode(d.Elect, ts)
	}
	chain := m.chainOf(chainId)
	txs := d.Build(m, ts)
	for _, tx := range txs {
		if err := m.Store.CacheStoreTransaction(tx); err != nil {
			panic(err)
		}
	}
	cache, _ := chain.StateCopy()
	s := &common.Snapshot{Version: common.SnapshotVersionCommonEncoding, NodeId: chainId, Timestamp: ts}
	if d.NewRound && len(cache.Snapshots) > 0 {
		fr := cache.asFinal()
		s.RoundNumber = cache.Number + 1
		s.References = &common.RoundLink{Self: fr.Hash, External: cache.References.External}
	} else {
		s.RoundNumber = cache.Number
		s.References = cache.References.Copy()
	}
	hs := make([]crypto.Hash, len(txs))
	for i, tx := range txs {
		hs[i] = tx.PayloadHash()
	}
	for i := range hs {
		for j := i + 1; j < len(hs); j++ {
			if bytes.Compare(hs[j][:], hs[i][:]) < 0 {
				hs[i], hs[j] = hs[j], hs[i]
			}
		}
	}
	for _, h := range hs {
		s.AddTransaction(h)
	}
	s.Hash = s.PayloadHash()
	ids, publics := chain.ConsensusKeys(s.RoundNumber, ts)
	idx := mcSignerSet(ids, chainId, m.Node.ConsensusThreshold(ts, true))
	s.Signature = mcDetCosiSign(m.Net, publics, idx, s.Hash)
	d.Hash = s.Hash
	if d.TailOnly {
		// the tail of cosiHandleFinalization after its validation steps, for
		// operations whose snapshot-level validation needs state the fixture does
		// not have (mint: work statistics): takeover lock + persist, AddSnapshot
		// (TopoWrite -> WriteSnapshot), reloadConsensusState (consensus marker)
		signers := make([]crypto.Hash, len(idx))
		for i, k := range idx {
			signers[i] = ids[k]
		}
		for _, tx := range txs {
			if err := m.Node.lockAndPersistTransaction(tx, true); err != nil {
				panic(fmt.Errorf("lockAndPersistTransaction(%s): %w", d.Name, err))
			}
		}
		cache, final := chain.StateCopy()
		if err := cache.ValidateSnapshot(s); err != nil {
			return s // re-delivery of an already stored snapshot
		}
		if err := chain.AddSnapshot(final, cache, s, signers); err != nil {
			panic(err)
		}
		if len(txs) == 1 {
			if err := m.Node.reloadConsensusState(s, txs[0]); err != nil {
				panic(err)
			}
		}
		return s
	}
	err := chain.cosiHandleFinalization(&CosiAction{Action: CosiActionFinalization, PeerId: m.Net.NodeIds[(d.Chain+8)%7], Snapshot: s, SnapshotHash: s.Hash})
	if err != nil {
		panic(fmt.Errorf("cosiHandleFinalization(%s): %w", d.Name, err))
	}
	return s
}

// mcCrMint builds a universal mint of the next batch referencing the last
// recorded consensus operation (amount fixed; the amount rule is C25's subject).
func mcCrMint(label string) func(m *mcNode, ts uint64) []*common.VersionedTransaction {
	return func(m *mcNode, ts uint64) []*common.VersionedTransaction {
		a := mcCrAcct()
		batch := m.Node.lastMintDistribution().Batch + 1
		tx := common.NewTransactionV5(common.XINAssetId)
		tx.AddUniversalMintInput(batch, common.NewIntegerFromString("89.87671232"))
		tx.AddScriptOutput([]*common.Address{&a}, common.NewThresholdScript(1), common.NewIntegerFromString("89.87671232"), fixc.Seed64("mint-out:"+label))
		last, err := m.Store.ReadLastConsensusSnapshot()
		if err != nil || last == nil {
			panic(fmt.Sprint("no consensus snapshot ", err))
		}
		tx.References = []crypto.Hash{last.Transactions[0]}
		ver := tx.AsVersioned()
		if err := ver.SignRaw(m.Net.Signers[0].PrivateSpendKey); err != nil {
			panic(err)
		}
		return []*common.VersionedTransaction{ver}
	}
}

// ---- transaction builders against the live store -------------------------------

func mcCrAcct() common.Address { return fixc.Addr("crash-wallet") }

func mcCrDepositBTC(ext, amount string) func(m *mcNode, ts uint64) []*common.VersionedTransaction {
	return func(m *mcNode, ts uint64) []*common.VersionedTransaction {
		a := mcCrAcct()
		return []*common.VersionedTransaction{m.Net.DepositBTC(ext, amount, []*common.Address{&a}, 1)}
	}
}

func mcCrDepositXIN(ext, amount string) func(m *mcNode, ts uint64) []*common.VersionedTransaction {
	return func(m *mcNode, ts uint64) []*common.VersionedTransaction {
		a := mcCrAcct()
		return []*common.VersionedTransaction{m.Net.DepositXIN(ext, amount, []*common.Address{&a}, 1)}
	}
}

// mcCrTransfer spends output 0 of the deposit with external id ext into two outputs.
func mcCrTransfer(assetBTC bool, ext, amount, a1, a2, label string) func(m *mcNode, ts uint64) []*common.VersionedTransaction {
	return func(m *mcNode, ts uint64) []*common.VersionedTransaction {
		a := mcCrAcct()
		var dep *common.VersionedTransaction
		asset := common.XINAssetId
		if assetBTC {
			dep = m.Net.DepositBTC(ext, amount, []*common.Address{&a}, 1)
			asset = common.BitcoinAssetId
		} else {
			dep = m.Net.DepositXIN(ext, amount, []*common.Address{&a}, 1)
		}
		tx := fixc.Transfer(asset, []*common.Input{{Hash: dep.PayloadHash(), Index: 0}}, []fixc.Out{{To: []*common.Address{&a}, T: 1, Amount: a1}, {To: []*common.Address{&a}, T: 1, Amount: a2}}, label)
		return []*common.VersionedTransaction{fixc.SignAll(tx, m.Store, [][]*common.Address{{&a}})}
	}
}

// mcCrPledge pledges a new node from the exact-amount XIN deposit ext.
func mcCrPledge(ext string, n int) func(m *mcNode, ts uint64) []*common.VersionedTransaction {
	return func(m *mcNode, ts uint64) []*common.VersionedTransaction {
		a := mcCrAcct()
		dep := m.Net.DepositXIN(ext, "13439", []*common.Address{&a}, 1)
		signer := fixc.NodeAddr(fmt.Sprintf("crash-pledge-signer-%d", n))
		payee := fixc.NodeAddr(fmt.Sprintf("crash-pledge-payee-%d", n))
		tx := common.NewTransactionV5(common.XINAssetId)
		tx.AddInput(dep.PayloadHash(), 0)
		tx.Outputs = append(tx.Outputs, &common.Output{Type: common.OutputTypeNodePledge, Amount: common.KernelNodePledgeAmount})
		tx.Extra = append(signer.PublicSpendKey[:], payee.PublicSpendKey[:]...)
		last, err := m.Store.ReadLastConsensusSnapshot()
		if err != nil || last == nil {
			panic(fmt.Sprint("no consensus snapshot ", err))
		}
		tx.References = []crypto.Hash{last.Transactions[0]}
		return []*common.VersionedTransaction{fixc.SignAll(tx, m.Store, [][]*common.Address{{&a}})}
	}
}

// ---- running a workload with a crash cut ------------------------------------------

type mcCrashRun struct {
	Dir      string
	M        *mcNode
	Ctl      *mcCrashCtl
	Panicked []string
}

func mcOpenRun(dir string, cut int64, point bool) *mcCrashRun {
	mcInstallCrashHook()
	store, err := storage.OpenForVerif(dir)
	if err != nil {
		panic(err)
	}
	ctl := &mcCrashCtl{cut: cut, point: point}
	mcCrashCtls.Store(store.VerifSnapshotsDir(), ctl)
	// the genesis load and node setup happen before the workload: not counted
	saved := ctl.cut
	ctl.cut = 0
	m, err := newMCNodeOnStore(mcNet7, 0, store)
	if err != nil {
		panic(err)
	}
	ctl.count.Store(0)
	ctl.cut = saved
	return &mcCrashRun{Dir: dir, M: m, Ctl: ctl}
}

// Crash abandons the in-memory node and closes the database files; what is on
// disk is what was committed.
func (r *mcCrashRun) Crash() {
	mcCrashCtls.Delete(r.M.Store.VerifSnapshotsDir())
	r.M.Close()
}

func mcRemoveAll(dir string) { _ = os.RemoveAll(dir) }

func mcSubdir(base string, i int) string { return filepath.Join(base, fmt.Sprintf("run-%d", i)) }

// mcSignerSet picks threshold consensus indexes that include the proposer (the
// chain's own node always signs its snapshots; WriteRoundWork asserts it).
func mcSignerSet(ids []crypto.Hash, proposer crypto.Hash, threshold int) []int {
	var idx []int
	for i, id := range ids {
		if id == proposer {
			idx = append(idx, i)
		}
	}
	for i := range ids {
		if len(idx) >= threshold {
			break
		}
		if ids[i] != proposer {
			idx = append(idx, i)
		}
	}
	sortInts(idx)
	return idx
}

func sortInts(a []int) {
	for i := range a {
		for j := i + 1; j < len(a); j++ {
			if a[j] < a[i] {
				a[i], a[j] = a[j], a[i]
			}
		}
	}
}
