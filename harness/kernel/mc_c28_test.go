//go:build verif

package kernel

import (
	"bytes"
	"encoding/binary"
	"encoding/hex"
	"fmt"
	"runtime"
	"sort"
	"strings"
	"testing"
	"time"

	"github.com/MixinNetwork/mixin/common"
	"github.com/MixinNetwork/mixin/crypto"
	"github.com/MixinNetwork/mixin/storage"
	"github.com/MixinNetwork/mixin/verifmc"
	"github.com/MixinNetwork/mixin/verifmc/fixc"
)

// C28 — consensus operations form a serialized single-transaction chain.
//
// Part 1 (batch rule, complete enumeration): one representative transaction
// per class; every subset of size 1..3, in every member order, with both values
// of `finalized`, is offered to the real validateKernelSnapshot the way
// validateSnapshotTransaction does (the `found` map grows member by member).
// IsSnapshotBatchable is compared class by class with the statement's table.
//
// Part 2 (chain rule, BFS): real consensus operations (mint built by the real
// buildUniversalMintTransaction, node pledge, custodian update) are offered to
// the real validateConsensusTransactionReferences / validateSnapshotTransaction
// with every (reference, timestamp) shape; accepted ones are finalized through
// lockAndPersistTransaction + TopoWrite + reloadConsensusState and the
// CONSENSUSSNAPSHOT records are read back.

// ---------------------------------------------------------------- helpers

func c28Catch(f func()) (p any, stack string) {
	defer func() {
		if r := recover(); r != nil {
			p = r
			buf := make([]byte, 1<<15)
			stack = string(buf[:runtime.Stack(buf, false)])
		}
	}()
	f()
	return nil, ""
}

// c28Site returns the innermost repository function of a panic stack.
func c28Site(stack string) string {
	for _, l := range strings.Split(stack, "\n") {
		l = strings.TrimSpace(l)
		if !strings.HasPrefix(l, "github.com/MixinNetwork/mixin/") || strings.Contains(l, "/verifmc") || strings.Contains(l, ".c28") || strings.Contains(l, "TestMC_") {
			continue
		}
		if j := strings.LastIndex(l, "("); j > 0 {
			l = l[:j]
		}
		if j := strings.LastIndex(l, "/"); j >= 0 {
			l = l[j+1:]
		}
		return l
	}
	return "unknown"
}

func c28Unhex(s string) []byte {
	b, err := hex.DecodeString(s)
	if err != nil {
		panic(err)
	}
	return b
}

// ---------------------------------------------------------------- part 1

type c28Rep struct {
	Name      string
	Type      uint8
	Batchable bool // the statement's table
	Consensus bool // mint, membership or custodian operation
	Tx        *common.VersionedTransaction
}

func c28Reps(net *fixc.Net) []*c28Rep {
	acct := fixc.Addr("c28-acct")
	to := []*common.Address{&acct}
	thr := common.NewThresholdScript(1)
	plain := func(label string) *common.Transaction {
		tx := common.NewTransactionV5(common.XINAssetId)
		tx.AddInput(fixc.Hash("c28-rep-input:"+label), 0)
		return tx
	}
	typed := func(label string, ot uint8) *common.VersionedTransaction {
		tx := plain(label)
		tx.AddOutputWithType(ot, nil, common.Script{}, common.NewIntegerFromString("10"), fixc.Seed64("c28-rep:"+label))
		rs, rp := fixc.NodeAddr("c28-rep-signer"), fixc.NodeAddr("c28-rep-payee")
		tx.Extra = append(append([]byte{}, rs.PublicSpendKey[:]...), rp.PublicSpendKey[:]...)
		return tx.AsVersioned()
	}
	script := plain("script")
	script.AddScriptOutput(to, thr, common.NewIntegerFromString("10"), fixc.Seed64("c28-rep:script"))
	submit := plain("submit")
	submit.Outputs = append(submit.Outputs, &common.Output{Type: common.OutputTypeWithdrawalSubmit, Amount: common.NewIntegerFromString("1"), Withdrawal: &common.WithdrawalData{Address: "bc1-c28", Tag: ""}})
	claim := plain("claim")
	claim.Outputs = append(claim.Outputs, &common.Output{Type: common.OutputTypeWithdrawalClaim, Amount: common.NewIntegerFromString("1")})
	claim.References = []crypto.Hash{submit.AsVersioned().PayloadHash()}
	mint := common.NewTransactionV5(common.XINAssetId)
	mint.AddUniversalMintInput(1707, common.NewIntegerFromString("100"))
	mint.AddScriptOutput(to, thr, common.NewIntegerFromString("100"), fixc.Seed64("c28-rep:mint"))
	return []*c28Rep{
		{"script", common.TransactionTypeScript, true, false, script.AsVersioned()},
		{"deposit", common.TransactionTypeDeposit, true, false, net.DepositXIN("c28-rep-deposit", "10", to, 1)},
		{"withdrawal-submit", common.TransactionTypeWithdrawalSubmit, true, false, submit.AsVersioned()},
		{"withdrawal-claim", common.TransactionTypeWithdrawalClaim, true, false, claim.AsVersioned()},
		{"mint", common.TransactionTypeMint, false, true, mint.AsVersioned()},
		{"node-pledge", common.TransactionTypeNodePledge, false, true, typed("pledge", common.OutputTypeNodePledge)},
		{"node-accept", common.TransactionTypeNodeAccept, false, true, typed("accept", common.OutputTypeNodeAccept)},
		{"node-cancel", common.TransactionTypeNodeCancel, false, true, typed("cancel", common.OutputTypeNodeCancel)},
		{"node-remove", common.TransactionTypeNodeRemove, false, true, typed("remove", common.OutputTypeNodeRemove)},
		{"custodian-update", common.TransactionTypeCustodianUpdateNodes, false, true, typed("custodian-update", common.OutputTypeCustodianUpdateNodes)},
		{"custodian-slash", common.TransactionTypeCustodianSlashNodes, false, true, typed("custodian-slash", common.OutputTypeCustodianSlashNodes)},
		{"unknown", common.TransactionTypeUnknown, false, false, typed("unknown", 0x77)},
	}
}

// c28Offer replays what validateSnapshotTransaction does with the members of
// a snapshot: the found map grows in snapshot order and validateKernelSnapshot
// is consulted after every member. Returns the first error (or panic).
func c28Offer(node *Node, s *common.Snapshot, txs map[crypto.Hash]*common.VersionedTransaction, finalized bool) (err error, p any) {
	found := map[crypto.Hash]*common.VersionedTransaction{}
	for _, h := range s.Transactions {
		found[h] = txs[h]
		p, _ = c28Catch(func() { err = node.validateKernelSnapshot(s, found, finalized) })
		if p != nil || err != nil {
			return err, p
		}
	}
	return nil, nil
}

func c28BatchRule(c *verifmc.Check) {
	m, err := newMCNode(mcNet7, 0, "")
	c.Require(err == nil, "part 1 fixture: %v", err)
	if err != nil {
		return
	}
	defer m.Close()
	node := m.Node
	reps := c28Reps(m.Net)
	txs := map[crypto.Hash]*common.VersionedTransaction{}
	for _, r := range reps {
		c.Require(r.Tx.TransactionType() == r.Type, "representative %s has type %#x, want %#x", r.Name, r.Tx.TransactionType(), r.Type)
		txs[r.Tx.PayloadHash()] = r.Tx
	}
	c.Require(len(txs) == len(reps), "representatives collide")

	// class table
	for _, r := range reps {
		c.Eval(1)
		c.Distinct("table|" + r.Name)
		got := r.Tx.IsSnapshotBatchable()
		c.Outcome(fmt.Sprintf("table:batchable=%v", got))
		if got && !r.Batchable {
			c.Violation("batchable:"+r.Name, fmt.Sprintf("IsSnapshotBatchable is true for class %s (type %#x); the statement allows script, deposit, withdrawal submit and withdrawal claim only", r.Name, r.Type), map[string]any{"class": r.Name, "tx": hex.EncodeToString(r.Tx.Marshal())})
		}
		if !got && r.Batchable {
			c.Stricter("class " + r.Name + " is not batchable")
		}
	}
	// every output type / special input as a one-output transaction
	allowed := map[uint8]bool{common.TransactionTypeScript: true, common.TransactionTypeDeposit: true, common.TransactionTypeWithdrawalSubmit: true, common.TransactionTypeWithdrawalClaim: true}
	for ot := 0; ot < 256; ot++ {
		for in := 0; in < 4; in++ {
			if in > 0 && ot != common.OutputTypeScript && ot != common.OutputTypeNodePledge && ot != common.OutputTypeCustodianUpdateNodes {
				continue
			}
			tx := common.NewTransactionV5(common.XINAssetId)
			switch in {
			case 0:
				tx.AddInput(fixc.Hash("c28-ot-input"), 0)
			case 1:
				tx.AddUniversalMintInput(1707, common.NewIntegerFromString("10"))
			case 2:
				tx.AddDepositInput(&common.DepositData{Chain: common.XINAsset.Chain, AssetKey: common.XINAsset.AssetKey, Transaction: "c28-ot", Index: 0, Amount: common.NewIntegerFromString("10")})
			case 3:
				tx.Inputs = append(tx.Inputs, &common.Input{Genesis: []byte("c28")})
			}
			tx.AddOutputWithType(uint8(ot), nil, common.Script{}, common.NewIntegerFromString("10"), fixc.Seed64("c28-ot"))
			ver := tx.AsVersioned()
			c.Eval(1)
			c.Distinct(fmt.Sprintf("table|ot=%#x|in=%d", ot, in))
			// a deposit input carrying a consensus output is classified as
			// deposit; such a body is refused by Validate (C05), not here
			if in == 2 && ot != common.OutputTypeScript {
				continue
			}
			if ver.IsSnapshotBatchable() && !allowed[ver.TransactionType()] {
				c.Violation(fmt.Sprintf("batchable:type=%#x", ver.TransactionType()), fmt.Sprintf("IsSnapshotBatchable is true for a transaction of type %#x (output type %#x, input kind %d)", ver.TransactionType(), ot, in), map[string]any{"output_type": ot, "input_kind": in})
			}
		}
	}

	// snapshots
	cons, err := m.Store.ReadLastConsensusSnapshot()
	c.Require(err == nil && cons != nil, "no genesis consensus snapshot: %v", err)
	nodeId := m.Net.NodeIds[2]
	head, err := m.Store.ReadRound(nodeId)
	c.Require(err == nil && head != nil, "no head round: %v", err)
	if err != nil || head == nil || cons == nil {
		return
	}
	var accM, rejM, accS, rejS int64
	verifmc.Subsets(len(reps), func(mask uint32, members []int) {
		if len(members) < 1 || len(members) > 3 {
			return
		}
		mem := append([]int{}, members...)
		verifmc.Permutations(len(mem), func(p []int) {
			for _, finalized := range []bool{false, true} {
				s := &common.Snapshot{Version: common.SnapshotVersionCommonEncoding, NodeId: nodeId, RoundNumber: head.Number, References: head.References, Timestamp: m.Net.Epoch + 1707*OneDay + 11*uint64(time.Hour)}
				var names, bad []string
				for _, i := range p {
					r := reps[mem[i]]
					s.AddTransaction(r.Tx.PayloadHash())
					names = append(names, r.Name)
					if !r.Batchable {
						bad = append(bad, r.Name)
					}
				}
				s.Hash = s.PayloadHash()
				verr, vp := c28Offer(node, s, txs, finalized)
				c.Eval(1)
				c.Distinct(fmt.Sprintf("set|%s|f=%v", strings.Join(names, ","), finalized))
				accepted := verr == nil && vp == nil
				replay := map[string]any{"members_in_snapshot_order": names, "finalized": finalized}
				if len(p) == 1 {
					r := reps[mem[0]]
					switch {
					case accepted && r.Consensus:
						// no reference at all (the representatives carry none, the claim aside)
						c.Violation("single:no-reference:"+r.Name, fmt.Sprintf("a %s alone in its snapshot without any reference is accepted by validateKernelSnapshot", r.Name), replay)
					case accepted:
						accS++
						c.Outcome("single:accept")
					case r.Consensus:
						rejS++
						c.Outcome("single:reject-consensus-without-reference")
					default:
						c.Outcome("single:reject-other")
						c.Stricter("a " + r.Name + " alone in its snapshot is refused")
					}
					continue
				}
				sort.Strings(bad)
				switch {
				case accepted && len(bad) > 0:
					c.Violation("batch:accepted:"+strings.Join(bad, "+"), fmt.Sprintf("validateKernelSnapshot accepts a snapshot of %d transactions %v containing non-batchable %v (finalized=%v)", len(p), names, bad, finalized), replay)
				case accepted:
					accM++
					c.Outcome("batch:accept-all-batchable")
				case len(bad) > 0:
					rejM++
					if vp != nil {
						c.Outcome("batch:reject-panic")
					} else {
						c.Outcome("batch:reject-non-batchable")
					}
				default:
					c.Outcome("batch:reject-all-batchable")
					c.Stricter(fmt.Sprintf("a snapshot of batchable classes %v is refused", names))
				}
			}
		})
	})
	c.Set("part1_multi_accepted", accM)
	c.Set("part1_multi_rejected", rejM)
	c.Require(accM > 0 && rejM > 0 && accS > 0 && rejS > 0, "vacuous batch rule: multi accept %d reject %d, single accept %d reject %d", accM, rejM, accS, rejS)
	c.Sample(map[string]any{"part": 1, "classes": len(reps), "multi_accepted": accM, "multi_rejected": rejM})
}

// ---------------------------------------------------------------- part 2

// c28Store answers the three work / round space readers of the mint
// distribution with "every node ready, equal work" (as C25 does); every other
// call reaches the real Badger store.
type c28Store struct {
	storage.Store
}

func (s *c28Store) ListNodeWorks(cids []crypto.Hash, day uint32) (map[crypto.Hash][2]uint64, error) {
	works := make(map[crypto.Hash][2]uint64, len(cids))
	for _, id := range cids {
		works[id] = [2]uint64{100, 10}
	}
	return works, nil
}

func (s *c28Store) ListAggregatedRoundSpaceCheckpoints(cids []crypto.Hash) (map[crypto.Hash]*common.RoundSpace, error) {
	spaces := make(map[crypto.Hash]*common.RoundSpace, len(cids))
	for _, id := range cids {
		spaces[id] = &common.RoundSpace{NodeId: id, Batch: 1 << 40}
	}
	return spaces, nil
}

func (s *c28Store) ReadNodeRoundSpacesForBatch(nodeId crypto.Hash, batch uint64) ([]*common.RoundSpace, error) {
	return nil, nil
}

const (
	c28Mint = iota
	c28Pledge
	c28Custodian
	c28Genesis
)

var (
	c28Kinds    = []string{"mint", "pledge", "custodian-update", "genesis"}
	c28Refs     = []string{"last", "before", "unrelated", "none"}
	c28Times    = []string{"ts-1", "ts-equal", "ts+1", "slot"}
	c28Types    = []byte{common.TransactionTypeMint, common.TransactionTypeNodePledge, common.TransactionTypeCustodianUpdateNodes}
	c28NumOffer = len(c28Types) * len(c28Refs) * len(c28Times)
	// redelivery events
	c28Redeliver = []string{"redeliver-last:same-snapshot", "redeliver-last:new-snapshot:ts-1", "redeliver-last:new-snapshot:ts-equal", "redeliver-last:new-snapshot:ts+1", "redeliver-before:new-snapshot:ts+1"}
)

const c28Day0 = 1707 // first batch of this kernel

// c28CustFunds is the number of funded custodian updates per history (= BFS depth).
var c28CustFunds = 4

func c28EventName(e int) string {
	if e >= c28NumOffer {
		return c28Redeliver[e-c28NumOffer]
	}
	k, r, t := e/16, (e/4)%4, e%4
	return fmt.Sprintf("%s:ref=%s:%s", c28Kinds[k], c28Refs[r], c28Times[t])
}

func c28Event(kind, ref, ts int) int { return kind*16 + ref*4 + ts }

type c28Op struct {
	Kind int
	Tx   crypto.Hash
	Snap crypto.Hash
	Ts   uint64
}

type c28World struct {
	c      *verifmc.Check
	m      *mcNode
	node   *Node
	wallet common.Address
	// funding
	pledgeFund *common.VersionedTransaction
	custFund   []*common.VersionedTransaction
	accept0    crypto.Hash // a finalized genesis node accept transaction
	// reference model: the recorded consensus history
	chain     []c28Op
	txs       map[crypto.Hash]*common.VersionedTransaction
	snaps     map[crypto.Hash]*common.Snapshot
	mints     int
	custs     int
	pledged   bool
	lastBatch uint64
	broken    bool
	// verdicts of the last event (vacuity guards)
	lastRefOK, lastFullOK, lastRecorded bool
	lastWhy                             string
}

func c28NewWorld(c *verifmc.Check) *c28World {
	m, err := newMCNode(mcNet7, 0, "")
	if err != nil {
		c.Require(false, "part 2 fixture: %v", err)
		return nil
	}
	w := &c28World{c: c, m: m, node: m.Node, wallet: fixc.Addr("c28-wallet"), txs: map[crypto.Hash]*common.VersionedTransaction{}, snaps: map[crypto.Hash]*common.Snapshot{}, lastBatch: KernelNetworkLegacyEnding}
	m.Node.persistStore = &c28Store{Store: m.Store}
	net := m.Net
	to := []*common.Address{&w.wallet}
	t0 := net.Epoch + c28Day0*OneDay + uint64(time.Hour)
	fin := func(i int, tx *common.VersionedTransaction) {
		var ferr error
		p := verifmc.Catch(func() { _, ferr = m.Store.VerifFinalize(net.NodeIds[1], t0+uint64(i)*uint64(time.Second), true, tx) })
		c.Require(p == nil && ferr == nil, "funding deposit %d: %v %v", i, p, ferr)
	}
	w.pledgeFund = net.DepositXIN("c28-pledge-fund", "13439", to, 1)
	fin(0, w.pledgeFund)
	for i := 0; i < c28CustFunds; i++ {
		d := net.DepositXIN(fmt.Sprintf("c28-cust-fund-%d", i), "10", to, 1)
		w.custFund = append(w.custFund, d)
		fin(1+i, d)
	}
	// the funding snapshots were written below the node: resynchronise its
	// topological counter with the store
	if ls, _ := m.Store.LastSnapshot(); ls != nil {
		m.Node.TopoCounter.seq = ls.TopologicalOrder
	}
	last, err := m.Store.ReadLastConsensusSnapshot()
	if err != nil || last == nil || len(last.Transactions) != 1 {
		c.Require(false, "genesis consensus snapshot: %v %v", last, err)
		m.Close()
		return nil
	}
	gtx, _, err := m.Store.ReadTransaction(last.Transactions[0])
	if err != nil || gtx == nil {
		c.Require(false, "genesis consensus transaction: %v", err)
		m.Close()
		return nil
	}
	last.Hash = last.PayloadHash()
	w.chain = []c28Op{{Kind: c28Genesis, Tx: gtx.PayloadHash(), Snap: last.Hash, Ts: last.Timestamp}}
	w.txs[gtx.PayloadHash()] = gtx
	w.snaps[last.Hash] = last
	for _, cn := range m.Node.allNodesSortedWithState {
		if cn.Transaction != gtx.PayloadHash() {
			w.accept0 = cn.Transaction
			break
		}
	}
	c.Require(w.accept0.HasValue(), "no genesis accept transaction")
	return w
}

func (w *c28World) close() { w.m.Close() }

func (w *c28World) last() c28Op { return w.chain[len(w.chain)-1] }

func (w *c28World) key() string {
	if w.broken {
		return "BROKEN"
	}
	var parts []string
	for _, op := range w.chain[1:] {
		parts = append(parts, fmt.Sprintf("%s@%d", c28Kinds[op.Kind], int64(op.Ts-w.m.Net.Epoch)))
	}
	return "G|" + strings.Join(parts, "|")
}

// slot is the next timestamp after the last recorded operation at which the
// class passes the hour windows of the kernel (mint 08:00, others 11:00).
func (w *c28World) slot(kind int) uint64 {
	hour, d := uint64(11), uint64(c28Day0)
	if kind == c28Mint {
		hour = 8
		if d <= w.lastBatch {
			d = w.lastBatch + 1
		}
	}
	for {
		t := w.m.Net.Epoch + d*OneDay + hour*uint64(time.Hour)
		if t > w.last().Ts {
			return t
		}
		d++
	}
}

func (w *c28World) custodianKey(j int) common.Address {
	if j < 0 {
		return w.m.Net.Custodian
	}
	return fixc.Addr(fmt.Sprintf("c28-custodian-%d", j))
}

func (w *c28World) custodianNodesExtra() []byte {
	net := w.m.Net
	type nx struct {
		key   crypto.Key
		extra []byte
	}
	var ns []nx
	for i := range net.Signers {
		cu, pa := fixc.Pub(net.Custodians[i]), fixc.Pub(net.Payees[i])
		ss, ps, cs := net.Signers[i].PrivateSpendKey, net.Payees[i].PrivateSpendKey, net.Custodians[i].PrivateSpendKey
		ns = append(ns, nx{cu.PublicSpendKey, common.EncodeCustodianNode(&cu, &pa, &ss, &ps, &cs, net.NetworkId)})
	}
	sort.Slice(ns, func(i, j int) bool { return string(ns[i].key[:]) < string(ns[j].key[:]) })
	var out []byte
	for _, n := range ns {
		out = append(out, n.extra...)
	}
	return out
}

// build constructs the well-formed operation of the class with the given
// references. nil = the operation is not available in this state.
func (w *c28World) build(kind int, refs []crypto.Hash) *common.VersionedTransaction {
	store := w.m.Store
	switch kind {
	case c28Mint:
		ts := w.slot(c28Mint)
		var body *common.VersionedTransaction
		p := verifmc.Catch(func() {
			cur, err := store.ReadCustodian(ts)
			if err != nil || cur == nil {
				return
			}
			body = w.node.buildUniversalMintTransaction(cur, ts, false)
		})
		if p != nil || body == nil {
			w.lastWhy = fmt.Sprintf("mint builder: %v", p)
			return nil
		}
		t := body.Transaction
		t.References = refs
		ver := t.AsVersioned()
		if err := ver.SignInput(store, 0, []*common.Address{&w.node.Signer}); err != nil {
			w.lastWhy = err.Error()
			return nil
		}
		return ver
	case c28Pledge:
		if w.pledged {
			return nil
		}
		signer, payee := fixc.NodeAddr("c28-pledge-signer"), fixc.NodeAddr("c28-pledge-payee")
		tx := common.NewTransactionV5(common.XINAssetId)
		tx.AddInput(w.pledgeFund.PayloadHash(), 0)
		tx.AddOutputWithType(common.OutputTypeNodePledge, nil, common.Script{}, common.KernelNodePledgeAmount, fixc.Seed64("c28-pledge"))
		tx.Extra = append(signer.PublicSpendKey[:], payee.PublicSpendKey[:]...)
		tx.References = refs
		return fixc.SignAll(tx, store, [][]*common.Address{{&w.wallet}})
	case c28Custodian:
		j := w.custs
		if j >= len(w.custFund) {
			return nil
		}
		nc := fixc.Pub(w.custodianKey(j))
		extra := append(append([]byte{}, nc.PublicSpendKey[:]...), nc.PublicViewKey[:]...)
		extra = append(extra, w.custodianNodesExtra()...)
		prev := w.custodianKey(j - 1)
		sig := prev.PrivateSpendKey.Sign(crypto.Blake3Hash(extra))
		extra = append(extra, sig[:]...)
		tx := common.NewTransactionV5(common.XINAssetId)
		tx.AddInput(w.custFund[j].PayloadHash(), 0)
		tx.AddOutputWithType(common.OutputTypeCustodianUpdateNodes, []*common.Address{&nc}, common.NewThresholdScript(64), common.NewIntegerFromString("10"), fixc.Seed64(fmt.Sprintf("c28-cust-out-%d", j)))
		tx.Extra = extra
		tx.References = refs
		return fixc.SignAll(tx, store, [][]*common.Address{{&w.wallet}})
	}
	return nil
}

// snapshot builds a one-transaction snapshot on the head round of nodeId.
func (w *c28World) snapshot(nodeId crypto.Hash, ts uint64, txs ...crypto.Hash) *common.Snapshot {
	head, err := w.m.Store.ReadRound(nodeId)
	if err != nil || head == nil {
		w.c.Require(false, "no head round of %s: %v", nodeId, err)
		return nil
	}
	s := &common.Snapshot{Version: common.SnapshotVersionCommonEncoding, NodeId: nodeId, RoundNumber: head.Number, References: head.References, Timestamp: ts}
	for _, h := range txs {
		s.AddTransaction(h)
	}
	s.Hash = s.PayloadHash()
	s.Signature = &crypto.CosiSignature{Mask: 1}
	return s
}

// elected is the node the kernel elects for the class at ts (a fixed genesis
// node when the election itself is not defined at that time).
func (w *c28World) elected(op byte, ts uint64) crypto.Hash {
	var id crypto.Hash
	p := verifmc.Catch(func() { id = w.node.electSnapshotNode(op, ts) })
	if p != nil || !id.HasValue() || ts < w.m.Net.Epoch {
		return w.m.Net.NodeIds[3]
	}
	return id
}

func (w *c28World) violate(report func(key, desc string), key, desc string) {
	w.broken = true
	report(key, desc)
}

// finalize writes an accepted operation: lock + persist (when the full path
// did not already), TopoWrite, reloadConsensusState.
func (w *c28World) finalize(s *common.Snapshot, tx *common.VersionedTransaction, persisted bool, what string, report func(key, desc string)) bool {
	node := w.node
	if !persisted {
		var lerr error
		p, stack := c28Catch(func() { lerr = node.lockAndPersistTransaction(tx, true) })
		if p != nil || lerr != nil {
			w.violate(report, "chain:lock-fails:"+c28Site(stack), fmt.Sprintf("%s passed the reference check but lockAndPersistTransaction fails: %v %v", what, p, lerr))
			return false
		}
	}
	p, stack := c28Catch(func() { node.TopoWrite(s, []crypto.Hash{s.NodeId}) })
	if p != nil {
		w.violate(report, "chain:snapshot-write-panics:"+c28Site(stack), fmt.Sprintf("%s passed the reference check but writing its snapshot panics at %s: %v", what, c28Site(stack), p))
		return false
	}
	var rerr error
	p, stack = c28Catch(func() { rerr = node.reloadConsensusState(s, tx) })
	if p != nil {
		key := "chain:reload-panics:" + c28Site(stack)
		if strings.Contains(stack, "storage.writeConsensusSnapshot(") {
			key = "chain:write-panics"
		}
		w.violate(report, key, fmt.Sprintf("%s was accepted by validation but reloadConsensusState panics at %s: %v", what, c28Site(stack), p))
		return false
	}
	if rerr != nil {
		w.violate(report, "chain:reload-error", fmt.Sprintf("%s was accepted but reloadConsensusState fails: %v", what, rerr))
		return false
	}
	return true
}

// full runs the real admission path of a finalized snapshot.
func (w *c28World) full(s *common.Snapshot, tx *common.VersionedTransaction) (ok bool, why string) {
	h := tx.PayloadHash()
	if err := w.m.Store.CacheStoreTransaction(tx); err != nil {
		w.c.Require(false, "CacheStoreTransaction: %v", err)
		return false, "cache"
	}
	var found map[crypto.Hash]*common.VersionedTransaction
	var missing []crypto.Hash
	var ferr error
	p, stack := c28Catch(func() { found, missing, ferr = w.node.validateSnapshotTransaction(s, true) })
	switch {
	case p != nil:
		return false, "panic:" + c28Site(stack)
	case ferr != nil:
		return false, c28ErrClass(ferr)
	case len(missing) > 0 || found[h] == nil:
		return false, "missing"
	}
	return true, ""
}

func c28ErrClass(err error) string {
	s := err.Error()
	for _, k := range []string{"invalid consensus reference count", "invalid consensus reference", "invalid consensus timestamp", "only by", "malformed mint", "no universal mint", "hour", "reference not found", "approval signature", "custodian available", "input locked", "invalid operation lock", "pledge period", "non batchable", "finalized in snapshot", "invalid snapshot timestamp", "pending state"} {
		if strings.Contains(s, k) {
			return strings.ReplaceAll(k, " ", "-")
		}
	}
	if len(s) > 40 {
		s = s[:40]
	}
	return strings.ReplaceAll(s, " ", "-")
}

// batched offers the operation together with a batchable companion.
func (w *c28World) batched(s *common.Snapshot, tx *common.VersionedTransaction, kind int, report func(key, desc string)) {
	to := []*common.Address{&w.wallet}
	comp := w.m.Net.DepositXIN("c28-companion", "1", to, 1)
	txs := map[crypto.Hash]*common.VersionedTransaction{tx.PayloadHash(): tx, comp.PayloadHash(): comp}
	for _, order := range [][]crypto.Hash{{tx.PayloadHash(), comp.PayloadHash()}, {comp.PayloadHash(), tx.PayloadHash()}} {
		s2 := w.snapshot(s.NodeId, s.Timestamp, order...)
		if s2 == nil {
			return
		}
		for _, finalized := range []bool{false, true} {
			err, p := c28Offer(w.node, s2, txs, finalized)
			if err == nil && p == nil {
				w.violate(report, "batch:consensus-operation-batched:"+c28Kinds[kind], fmt.Sprintf("a %s is accepted in a snapshot of two transactions (companion: deposit; operation at position %d, finalized=%v)", c28Kinds[kind], map[bool]int{true: 0, false: 1}[order[0] == tx.PayloadHash()], finalized))
				return
			}
		}
	}
}

func c28Apply(w *c28World, e int, replaying bool, report func(key, desc string)) bool {
	if w == nil || w.broken {
		return false
	}
	w.lastRefOK, w.lastFullOK, w.lastRecorded, w.lastWhy = false, false, false, ""
	c, node := w.c, w.node
	last := w.last()
	if e >= c28NumOffer {
		return c28Redelivery(w, e-c28NumOffer, replaying, report)
	}
	kind, ref, tsc := e/16, (e/4)%4, e%4
	var refs []crypto.Hash
	switch ref {
	case 0:
		refs = []crypto.Hash{last.Tx}
	case 1:
		if len(w.chain) >= 2 {
			refs = []crypto.Hash{w.chain[len(w.chain)-2].Tx}
		} else {
			refs = []crypto.Hash{w.accept0}
		}
	case 2:
		refs = []crypto.Hash{w.pledgeFund.PayloadHash()}
	}
	var ts uint64
	switch tsc {
	case 0:
		ts = last.Ts - 1
	case 1:
		ts = last.Ts
	case 2:
		ts = last.Ts + 1
	case 3:
		ts = w.slot(kind)
	}
	tx := w.build(kind, refs)
	if tx == nil {
		return false
	}
	h := tx.PayloadHash()
	s := w.snapshot(w.elected(c28Types[kind], ts), ts, h)
	if s == nil {
		return false
	}
	what := fmt.Sprintf("%s with reference %s at %s (last recorded %s@%d)", c28Kinds[kind], c28Refs[ref], c28Times[tsc], c28Kinds[last.Kind], last.Ts)

	// the check under test
	var refErr error
	p, stack := c28Catch(func() { refErr = node.validateConsensusTransactionReferences(s, tx) })
	if p != nil {
		c.Require(false, "validateConsensusTransactionReferences panics at %s for %s: %v", c28Site(stack), what, p)
		return false
	}
	refOK := refErr == nil
	allowed := ref == 0 && ts > last.Ts
	if !replaying {
		if refOK {
			c.Outcome("reference-check:accept")
		} else {
			c.Outcome("reference-check:reject:" + c28ErrClass(refErr))
		}
	}
	if refOK && !allowed {
		w.violate(report, fmt.Sprintf("chain:accepted:ref=%s:%s", c28Refs[ref], c28Times[tsc]), "validateConsensusTransactionReferences accepts "+what)
	}
	// well-formedness at this timestamp (driver side)
	var txErr error
	if p := verifmc.Catch(func() { txErr = tx.Validate(w.m.Store, ts, true) }); p != nil {
		txErr = fmt.Errorf("panic %v", p)
	}
	// the singleton rule on the live state
	if !replaying {
		w.batched(s, tx, kind, report)
	}
	// the real admission path of a finalized snapshot
	fullOK, why := w.full(s, tx)
	if !replaying {
		if fullOK {
			c.Outcome("admission:accept")
		} else {
			c.Outcome("admission:reject:" + why)
		}
	}
	if fullOK && !allowed {
		w.violate(report, fmt.Sprintf("chain:admitted:ref=%s:%s", c28Refs[ref], c28Times[tsc]), "validateSnapshotTransaction (finalized) admits "+what)
	}
	w.lastRefOK, w.lastFullOK, w.lastWhy = refOK, fullOK, why
	if !refOK && !fullOK {
		return true // refused: the recorded history does not change
	}
	if !fullOK && txErr != nil {
		if !replaying {
			c.Outcome("reference-check:accept-but-body-invalid-at-this-time")
		}
		return true // not a well-formed operation at this timestamp: cannot be finalized
	}
	if !w.finalize(s, tx, fullOK, what, report) {
		return true
	}
	if w.broken {
		return true
	}
	w.chain = append(w.chain, c28Op{Kind: kind, Tx: h, Snap: s.Hash, Ts: ts})
	w.txs[h], w.snaps[s.Hash] = tx, s
	w.lastRecorded = true
	switch kind {
	case c28Mint:
		w.mints++
		w.lastBatch = tx.Inputs[0].Mint.Batch
	case c28Pledge:
		w.pledged = true
	case c28Custodian:
		w.custs++
	}
	if !replaying {
		c28CheckRecords(w, report)
	}
	return true
}

// c28Redelivery offers an already recorded operation again.
func c28Redelivery(w *c28World, r int, replaying bool, report func(key, desc string)) bool {
	c, node := w.c, w.node
	last := w.last()
	op := last
	if r == 4 {
		if len(w.chain) < 2 {
			return false
		}
		op = w.chain[len(w.chain)-2]
	}
	if op.Kind == c28Genesis {
		// the genesis record is a Genesis-input transaction (class unknown):
		// it cannot be offered in a snapshot at all
		return false
	}
	tx := w.txs[op.Tx]
	var s *common.Snapshot
	same := r == 0
	if same {
		s = w.snaps[op.Snap]
	} else {
		ts := last.Ts + 1
		switch r {
		case 1:
			ts = last.Ts - 1
		case 2:
			ts = last.Ts
		}
		orig := w.snaps[op.Snap]
		for _, id := range w.m.Net.NodeIds[1:] {
			if id != orig.NodeId {
				s = w.snapshot(id, ts, op.Tx)
				break
			}
		}
	}
	if s == nil || tx == nil {
		return false
	}
	what := fmt.Sprintf("%s (%s@%d, last recorded %s@%d)", c28Redeliver[r], c28Kinds[op.Kind], op.Ts, c28Kinds[last.Kind], last.Ts)
	var refErr error
	p, stack := c28Catch(func() { refErr = node.validateConsensusTransactionReferences(s, tx) })
	if p != nil {
		c.Require(false, "validateConsensusTransactionReferences panics at %s for %s: %v", c28Site(stack), what, p)
		return false
	}
	refOK := refErr == nil
	allowed := op.Tx == last.Tx // idempotent re-delivery of the last recorded operation
	if !replaying {
		if refOK {
			c.Outcome("redelivery:accept")
		} else {
			c.Outcome("redelivery:reject:" + c28ErrClass(refErr))
		}
	}
	w.lastRefOK = refOK
	if refOK && !allowed {
		w.violate(report, "chain:accepted:stale-operation", "validateConsensusTransactionReferences accepts "+what)
	}
	if !refOK {
		return true
	}
	// idempotent: no new record may appear, the chain stays readable
	if same {
		var rerr error
		p, stack := c28Catch(func() { rerr = node.reloadConsensusState(s, tx) })
		if p != nil || rerr != nil {
			key := "chain:reload-panics:" + c28Site(stack)
			if strings.Contains(stack, "storage.writeConsensusSnapshot(") {
				key = "chain:write-panics"
			}
			w.violate(report, key, fmt.Sprintf("%s: reloadConsensusState fails: %v %v", what, p, rerr))
			return true
		}
	} else if !w.finalize(s, tx, true, what, report) {
		return true
	}
	if !replaying {
		c28CheckRecords(w, report)
		w.rebatched(op, report)
	}
	return true
}

// rebatched: an ALREADY FINALIZED consensus operation offered again inside a
// finalized multi-transaction snapshot of another node, through the real
// validateSnapshotTransaction(s, true) (the path a peer's finalization takes),
// with batchable companions sorting before and after the operation's hash.
func (w *c28World) rebatched(op c28Op, report func(key, desc string)) {
	to := []*common.Address{&w.wallet}
	var lo, hi *common.VersionedTransaction
	for i := 0; i < 64 && (lo == nil || hi == nil); i++ {
		comp := w.m.Net.DepositXIN(fmt.Sprintf("c28-rebatch-%s-%d", op.Tx.String()[:8], i), "1", to, 1)
		h := comp.PayloadHash()
		if bytes.Compare(h[:], op.Tx[:]) < 0 {
			if lo == nil {
				lo = comp
			}
		} else if hi == nil {
			hi = comp
		}
	}
	orig := w.snaps[op.Snap]
	for name, comp := range map[string]*common.VersionedTransaction{"companion-sorts-first": lo, "companion-sorts-last": hi} {
		if comp == nil {
			continue
		}
		if err := w.m.Store.CacheStoreTransaction(comp); err != nil {
			continue
		}
		var s2 *common.Snapshot
		for _, id := range w.m.Net.NodeIds[1:] {
			if id != orig.NodeId {
				hs := []crypto.Hash{comp.PayloadHash(), op.Tx}
				if name == "companion-sorts-last" {
					hs = []crypto.Hash{op.Tx, comp.PayloadHash()}
				}
				s2 = w.snapshot(id, w.last().Ts+2, hs...)
				break
			}
		}
		if s2 == nil {
			continue
		}
		var err error
		var missing []crypto.Hash
		p, _ := c28Catch(func() { _, missing, err = w.node.validateSnapshotTransaction(s2, true) })
		w.c.Eval(1)
		if p == nil && err == nil && len(missing) == 0 {
			w.violate(report, "batch:finalized-consensus-operation-rebatched:"+c28Kinds[op.Kind], fmt.Sprintf("a finalized snapshot of another node batching the already finalized %s with a deposit (%s) passes validateSnapshotTransaction(s,true)", c28Kinds[op.Kind], name))
		} else {
			w.c.Outcome("rebatched:refused")
		}
	}
}

// c28CheckRecords reads the CONSENSUSSNAPSHOT records in key order and compares
// them with the statement (one chain) and with the reference history.
func c28CheckRecords(w *c28World, report func(key, desc string)) {
	store := w.m.Store
	dump := store.VerifDump("CONSENSUSSNAPSHOT")
	keys := verifmc.SortedKeys(dump)
	pl := len("CONSENSUSSNAPSHOT")
	type rec struct {
		ts   uint64
		snap crypto.Hash
		tx   crypto.Hash
		val  []byte
	}
	var recs []rec
	for _, k := range keys {
		kb := c28Unhex(k)
		var r rec
		r.ts = binary.BigEndian.Uint64(kb[pl : pl+8])
		copy(r.snap[:], kb[pl+8:])
		r.val = c28Unhex(dump[k])
		sn, err := store.ReadSnapshot(r.snap)
		if err != nil || sn == nil || len(sn.Transactions) != 1 || sn.Timestamp != r.ts {
			w.violate(report, "records:dangling", fmt.Sprintf("consensus record %s@%d does not name a one-transaction snapshot of that time: %v %v", r.snap, r.ts, sn, err))
			return
		}
		r.tx = sn.Transactions[0]
		recs = append(recs, r)
	}
	hist := func() string {
		var out []string
		for _, r := range recs {
			out = append(out, fmt.Sprintf("%d:%s->%x", r.ts, r.tx.String()[:8], r.val))
		}
		return strings.Join(out, " ")
	}
	for i, r := range recs {
		if i+1 < len(recs) {
			n := recs[i+1]
			if r.ts >= n.ts {
				w.violate(report, "records:timestamp-order", "consensus records are not strictly increasing in time: "+hist())
				return
			}
			if len(r.val) != len(n.tx) || string(r.val) != string(n.tx[:]) {
				w.violate(report, "records:broken-link", fmt.Sprintf("record %d does not point at the transaction of record %d: %s", i, i+1, hist()))
				return
			}
		} else if len(r.val) != 0 {
			w.violate(report, "records:last-not-open", "the last consensus record has a successor value: "+hist())
			return
		}
	}
	if len(recs) != len(w.chain) {
		w.violate(report, "records:model-mismatch", fmt.Sprintf("%d consensus records, %d operations accepted: %s", len(recs), len(w.chain), hist()))
		return
	}
	for i, r := range recs {
		if r.tx != w.chain[i].Tx || r.ts != w.chain[i].Ts {
			w.violate(report, "records:model-mismatch", fmt.Sprintf("record %d is %s@%d, accepted operation is %s@%d", i, r.tx, r.ts, w.chain[i].Tx, w.chain[i].Ts))
			return
		}
	}
	var got *common.Snapshot
	var err error
	p := verifmc.Catch(func() { got, err = store.ReadLastConsensusSnapshot() })
	if p == nil && err == nil && got != nil && got.Transactions[0] == w.last().Tx && (got.PayloadHash() != w.last().Snap || got.Timestamp != w.last().Ts) {
		report("history:last-consensus-differs-from-durable", fmt.Sprintf("ReadLastConsensusSnapshot answers snapshot %s@%d, the recorded one is %s@%d", got.PayloadHash(), got.Timestamp, w.last().Snap, w.last().Ts))
	} else if p != nil || err != nil || got == nil || got.Transactions[0] != w.last().Tx {
		w.violate(report, "records:last-unreadable", fmt.Sprintf("ReadLastConsensusSnapshot does not return the last accepted operation: %v %v %v", got, err, p))
	}
}

// c28Honest walks one honest history through the full admission path.
func c28Honest(c *verifmc.Check, kinds []int) {
	w := c28NewWorld(c)
	if w == nil {
		return
	}
	defer w.close()
	var names []string
	for i, k := range kinds {
		e := c28Event(k, 0, 3)
		names = append(names, c28EventName(e))
		ok := c28Apply(w, e, false, func(key, desc string) {
			c.Violation(key, desc, map[string]any{"history": names})
		})
		c.Eval(1)
		c.Require(ok && w.lastRefOK && w.lastFullOK && w.lastRecorded && len(w.chain) == i+2,
			"honest chain %v: step %d enabled=%v reference-check=%v admission=%v (%s) recorded=%v", names, i, ok, w.lastRefOK, w.lastFullOK, w.lastWhy, w.lastRecorded)
		if !ok || !w.lastRecorded {
			return
		}
	}
	c.Outcome("honest-chain-admitted")
	c.Sample(map[string]any{"part": 2, "honest_history": names, "state": w.key()})
}

func TestMC_C28(t *testing.T) {
	c := verifmc.Start(t, "C28", "model_checking")
	defer c.Finish()
	c.SetRule("Part 1: 12 class representatives (script, deposit, withdrawal submit/claim, mint, node pledge/accept/cancel/remove, custodian update/slash, unknown); every subset of size 1..3 x every member order x finalized in {false,true} is offered to validateKernelSnapshot member by member as validateSnapshotTransaction does; IsSnapshotBatchable compared with the table for the representatives and for every output type 0..255. " +
		"Part 2: BFS over histories of events (class in {mint by the real builder, node pledge, custodian update}) x (reference in {last recorded, the one before, unrelated finalized, none}) x (timestamp in {last-1, last, last+1, next kernel hour slot}) + 5 re-delivery events; each event runs validateConsensusTransactionReferences, validateKernelSnapshot with a batchable companion, and validateSnapshotTransaction(finalized); accepted operations are finalized (lockAndPersistTransaction, TopoWrite, reloadConsensusState) and the CONSENSUSSNAPSHOT records are read back; a state is the recorded history (class, time)")
	c.Assume("part 1 representatives only carry the right TransactionType (validateKernelSnapshot inspects nothing else of a multi-member snapshot)",
		"the mint distribution readers (ListNodeWorks, ListAggregatedRoundSpaceCheckpoints, ReadNodeRoundSpacesForBatch) answer 'all nodes ready, equal work'; every other store call is the real Badger store",
		"snapshots are written on the head round of the elected genesis chain without CoSi / round checks (TopoWrite directly); an operation refused by the hour / election rules but passing the reference check is still finalized, as DESIGN.md prescribes, to explore the reference rule on its own")

	c28BatchRule(c)

	// vacuity guard: honest chains pass the complete admission path
	c28Honest(c, []int{c28Mint, c28Pledge, c28Custodian})
	c28Honest(c, []int{c28Custodian, c28Mint, c28Custodian})

	// history part: replays of a recorded operation, restarts, then the next operation
	c28History(c)

	depth := verifmc.Pick(c, 3, 4)
	c28CustFunds = depth
	b := &verifmc.BFS[*c28World]{
		C: c, NumEvents: c28NumOffer + len(c28Redeliver), MaxDepth: depth,
		EventName: c28EventName,
		New:       func(int) *c28World { return c28NewWorld(c) },
		Apply:     c28Apply,
		Key:       func(w *c28World) string { return w.key() },
		Close:     func(w *c28World) { w.close() },
	}
	states, trans, d, _ := b.Run()
	c.Set("max_depth", d)
	c.Set("events", b.NumEvents)
	acc := c.OutcomeCount("reference-check:accept")
	rejRef := c.OutcomeCount("reference-check:reject:invalid-consensus-reference")
	rejTs := c.OutcomeCount("reference-check:reject:invalid-consensus-timestamp")
	rejNone := c.OutcomeCount("reference-check:reject:invalid-consensus-reference-count")
	c.Require(states > 30 && trans > 500, "vacuous C28 exploration: %d states %d transitions", states, trans)
	c.Require(acc > 0 && rejRef > 0 && rejTs > 0 && rejNone > 0, "vacuous reference rule: accept %d, wrong reference %d, timestamp %d, no reference %d", acc, rejRef, rejTs, rejNone)
	c.Require(c.OutcomeCount("admission:accept") > 0 && c.OutcomeCount("redelivery:accept") > 0 && c.OutcomeCount("redelivery:reject:invalid-consensus-reference") > 0,
		"vacuous admission / re-delivery: admitted %d, re-delivery accepted %d refused %d", c.OutcomeCount("admission:accept"), c.OutcomeCount("redelivery:accept"), c.OutcomeCount("redelivery:reject:invalid-consensus-reference"))
}
