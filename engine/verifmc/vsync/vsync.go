// Package vsync is a drop-in replacement for the parts of package sync used
// by the files that are compiled with the scheduler shim. When the calling
// goroutine is a harness thread of an active exploration, Lock/RLock are
// scheduling points and the lock is modelled by the scheduler; otherwise the
// primitives behave exactly like sync's.
package vsync

import (
	"sync"

	"github.com/MixinNetwork/mixin/verifmc"
)

type (
	Map       = sync.Map
	Once      = sync.Once
	WaitGroup = sync.WaitGroup
	Pool      = sync.Pool
	Locker    = sync.Locker
)

type Mutex struct{ m sync.Mutex }

func (m *Mutex) Lock() {
	verifmc.BeforeLock(m, true)
	m.m.Lock()
}

func (m *Mutex) Unlock() {
	m.m.Unlock()
	verifmc.AfterUnlock(m, true)
}

func (m *Mutex) TryLock() bool { return m.m.TryLock() }

type RWMutex struct{ m sync.RWMutex }

func (m *RWMutex) Lock() {
	verifmc.BeforeLock(m, true)
	m.m.Lock()
}

func (m *RWMutex) Unlock() {
	m.m.Unlock()
	verifmc.AfterUnlock(m, true)
}

func (m *RWMutex) RLock() {
	verifmc.BeforeLock(m, false)
	m.m.RLock()
}

func (m *RWMutex) RUnlock() {
	m.m.RUnlock()
	verifmc.AfterUnlock(m, false)
}

// Yield is the statement-level scheduling point that the overlay generator
// inserts before every top-level statement of selected functions.
func Yield() { verifmc.Yield() }
