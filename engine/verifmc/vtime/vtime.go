// Package vtime replaces package time in files compiled with the time shim
// (storage/badger_cache.go). Now() is strictly increasing so that the queue
// order of the cache is the call order (no dependence on clock resolution), and
// Sleep inside retry loops becomes a scheduling point while an exploration is
// attached, which keeps the schedule space finite.
package vtime

import (
	"sync/atomic"
	"time"

	"github.com/MixinNetwork/mixin/verifmc"
)

type Duration = time.Duration
type Time = time.Time

const (
	Nanosecond  = time.Nanosecond
	Microsecond = time.Microsecond
	Millisecond = time.Millisecond
	Second      = time.Second
	Minute      = time.Minute
	Hour        = time.Hour
)

var last atomic.Int64

// Now returns the real time, forced to be strictly increasing.
func Now() time.Time {
	for {
		n := time.Now().UnixNano()
		l := last.Load()
		if n <= l {
			n = l + 1
		}
		if last.CompareAndSwap(l, n) {
			return time.Unix(0, n)
		}
	}
}

func Sleep(d time.Duration) {
	if verifmc.Attached() {
		verifmc.Yield()
		return
	}
	time.Sleep(d)
}

func Since(t time.Time) time.Duration { return time.Since(t) }
