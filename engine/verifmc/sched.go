package verifmc

import (
	"bytes"
	"fmt"
	"os"
	"runtime"
	"strconv"
	"sync"
	"sync/atomic"
	"time"
)

// ---------------------------------------------------------------------------
// Cooperative scheduler + deviation(preemption)-bounded stateless DFS.
//
// Harness threads are real goroutines started with Sched.Go. Exactly one runs
// at a time; all others are parked inside a scheduling point. Scheduling
// points are raised by hooked primitives (vsync mutexes, the Badger
// transaction seams, explicit Yield). A hooked primitive called from a
// goroutine that is not a harness thread falls through untouched.
// ---------------------------------------------------------------------------

type abortSentinel struct{}

type thread struct {
	s       *Sched
	id      int
	name    string
	wake    chan bool // true = proceed, false = abort
	pending *lockOp   // lock the thread is about to take (nil = plain point)
	kind    string
	done    bool
	started bool
	panicV  any
}

type lockOp struct {
	obj   any
	write bool
}

type lockState struct {
	writer  *thread
	readers map[*thread]int
}

// PointInfo describes one scheduling decision of an execution.
type PointInfo struct {
	Enabled             []int // thread ids in canonical order
	RunningStillEnabled bool
	Chosen              int // index into Enabled
	Kind                string
}

// Sched drives one execution.
type Sched struct {
	prefix   []int
	threads  []*thread
	yielded  chan *thread
	locks    map[any]*lockState
	mu       sync.Mutex
	Points   []PointInfo
	Choices  []int
	Deadlock bool
	Diverged string
	Hung     string
	running  *thread
	Trace    []string // thread names in schedule order (for replay files)
	timeout  time.Duration
	// LazyLocks: taking a free lock is not a scheduling point (the thread only
	// parks when the lock is held by another thread). Use when the choice
	// points that matter are elsewhere (e.g. durable commits) and lock
	// acquisition order by itself cannot change the outcome.
	LazyLocks bool
	// free: the execution is not controlled (race pass): Go collects the
	// bodies, RunAll starts them as plain goroutines and waits.
	free    bool
	freeFns []func()
}

// harness threads of all active executions, by goroutine id. Several
// explorations may run in parallel (one Sched each); a goroutine belongs to at
// most one of them.
var (
	allThreads  sync.Map // goid -> *thread
	activeCount atomic.Int64
)

func goid() int64 {
	var buf [64]byte
	n := runtime.Stack(buf[:], false)
	// "goroutine 123 ["
	b := buf[:n]
	b = b[len("goroutine "):]
	i := bytes.IndexByte(b, ' ')
	id, _ := strconv.ParseInt(string(b[:i]), 10, 64)
	return id
}

func currentThread() (*Sched, *thread) {
	if activeCount.Load() == 0 {
		return nil, nil
	}
	v, ok := allThreads.Load(goid())
	if !ok {
		return nil, nil
	}
	t := v.(*thread)
	return t.s, t
}

// Attached reports whether the calling goroutine is a harness thread of an
// active exploration.
func Attached() bool {
	_, t := currentThread()
	return t != nil
}

// Point is a plain scheduling point (txn begin/commit, yield).
func Point(kind string) {
	s, t := currentThread()
	if t == nil {
		return
	}
	s.park(t, kind, nil)
}

// Yield is an explicit scheduling point for wait/retry loops.
func Yield() { Point("yield") }

// BeforeLock is called by vsync before taking a mutex. Returns true when the
// caller is a harness thread (the model then owns the lock state).
func BeforeLock(obj any, write bool) bool {
	s, t := currentThread()
	if t == nil {
		return false
	}
	if s.LazyLocks {
		s.mu.Lock()
		t.pending = &lockOp{obj: obj, write: write}
		if s.enabled(t) {
			s.acquire(t)
			s.mu.Unlock()
			return true
		}
		t.pending = nil
		s.mu.Unlock()
	}
	s.park(t, "lock", &lockOp{obj: obj, write: write})
	return true
}

// AfterUnlock is called by vsync after releasing a mutex.
func AfterUnlock(obj any, write bool) {
	s, t := currentThread()
	if t == nil {
		return
	}
	s.mu.Lock()
	ls := s.locks[obj]
	if ls != nil {
		if write {
			if ls.writer == t {
				ls.writer = nil
			}
		} else if ls.readers[t] > 0 {
			ls.readers[t]--
			if ls.readers[t] == 0 {
				delete(ls.readers, t)
			}
		}
	}
	s.mu.Unlock()
}

func (s *Sched) park(t *thread, kind string, op *lockOp) {
	t.kind = kind
	t.pending = op
	s.yielded <- t
	if ok := <-t.wake; !ok {
		panic(abortSentinel{})
	}
}

// Go registers a harness thread. Must be called before RunAll.
func (s *Sched) Go(name string, fn func()) {
	if s.free {
		s.freeFns = append(s.freeFns, fn)
		return
	}
	t := &thread{s: s, id: len(s.threads), name: name, wake: make(chan bool)}
	s.threads = append(s.threads, t)
	go func() {
		gid := goid()
		allThreads.Store(gid, t)
		defer func() {
			allThreads.Delete(gid)
			r := recover()
			if r != nil {
				if _, ok := r.(abortSentinel); !ok {
					t.panicV = fmt.Sprintf("%v @ %s", r, PanicSite())
				}
			}
			t.done = true
			t.kind = "exit"
			t.pending = nil
			s.yielded <- t
		}()
		if ok := <-t.wake; !ok {
			panic(abortSentinel{})
		}
		fn()
	}()
}

func (s *Sched) enabled(t *thread) bool {
	if t.done {
		return false
	}
	if t.pending == nil {
		return true
	}
	ls := s.locks[t.pending.obj]
	if ls == nil {
		return true
	}
	if t.pending.write {
		return ls.writer == nil && len(ls.readers) == 0
	}
	return ls.writer == nil
}

func (s *Sched) acquire(t *thread) {
	if t.pending == nil {
		return
	}
	ls := s.locks[t.pending.obj]
	if ls == nil {
		ls = &lockState{readers: map[*thread]int{}}
		s.locks[t.pending.obj] = ls
	}
	if t.pending.write {
		ls.writer = t
	} else {
		ls.readers[t]++
	}
	t.pending = nil
}

// RunAll runs all registered threads to completion under the schedule given
// by the prefix (then default choice 0). It returns the per-thread panic
// values (nil entries for threads that finished normally).
func (s *Sched) RunAll() []any {
	if s.free {
		res := make([]any, len(s.freeFns))
		var wg sync.WaitGroup
		for i, fn := range s.freeFns {
			wg.Add(1)
			go func() {
				defer wg.Done()
				defer func() {
					if r := recover(); r != nil {
						res[i] = fmt.Sprintf("%v @ %s", r, PanicSite())
					}
				}()
				fn()
			}()
		}
		wg.Wait()
		return res
	}
	activeCount.Add(1)
	defer activeCount.Add(-1)
	// all threads are parked on their wake channel (start point); they are
	// all "ready" with no pending lock.
	for {
		var en []*thread
		s.mu.Lock()
		if s.running != nil && s.enabled(s.running) {
			en = append(en, s.running)
		}
		for _, t := range s.threads {
			if t != s.running && s.enabled(t) {
				en = append(en, t)
			}
		}
		allDone := true
		for _, t := range s.threads {
			if !t.done {
				allDone = false
			}
		}
		s.mu.Unlock()
		if allDone {
			break
		}
		if len(en) == 0 {
			s.Deadlock = true
			s.abortAll()
			break
		}
		pi := PointInfo{RunningStillEnabled: s.running != nil && en[0] == s.running}
		for _, t := range en {
			pi.Enabled = append(pi.Enabled, t.id)
		}
		choice := 0
		idx := len(s.Points)
		if idx < len(s.prefix) {
			choice = s.prefix[idx]
			if choice >= len(en) {
				s.Diverged = fmt.Sprintf("point %d: choice %d out of range (%d enabled)", idx, choice, len(en))
				s.abortAll()
				break
			}
		}
		pi.Chosen = choice
		t := en[choice]
		pi.Kind = t.kind
		s.Points = append(s.Points, pi)
		s.Choices = append(s.Choices, choice)
		s.Trace = append(s.Trace, t.name+":"+t.kind)
		s.mu.Lock()
		s.acquire(t)
		s.running = t
		s.mu.Unlock()
		t.wake <- true
		select {
		case <-s.yielded:
			// the running thread reached its next point or exited
		case <-time.After(s.timeout):
			s.Hung = fmt.Sprintf("thread %s did not reach a scheduling point within %s after %v", t.name, s.timeout, s.Trace)
			return nil
		}
	}
	out := make([]any, len(s.threads))
	for i, t := range s.threads {
		out[i] = t.panicV
	}
	return out
}

func (s *Sched) abortAll() {
	for _, t := range s.threads {
		if !t.done {
			t.wake <- false
			<-s.yielded
		}
	}
}

// Explorer enumerates all schedules of Body with at most Bound preemptions.
type Explorer struct {
	C     *Check
	Bound int // maximum preemptions; <0 = unbounded
	// Body builds a fresh instance, registers threads with s.Go, calls
	// s.RunAll(), evaluates its oracle and returns an outcome string used to
	// count distinct outcomes. It reports violations through report.
	Body func(s *Sched, report func(key, desc string)) string
	// Timeout for one thread step (default 30s).
	StepTimeout time.Duration
	Name        string
	FreeIters   int // executions per scenario in the free-running race pass (default 6)

	Executions int64
	Outcomes   map[string]int64
	Deadlocks  int64
	Complete   bool
	MaxPoints  int
}

func (e *Explorer) runOne(prefix []int) *Sched {
	s := &Sched{prefix: prefix, yielded: make(chan *thread), locks: map[any]*lockState{}, timeout: e.StepTimeout}
	if s.timeout == 0 {
		s.timeout = 30 * time.Second
	}
	var viol [][2]string
	out := e.Body(s, func(k, d string) { viol = append(viol, [2]string{k, d}) })
	e.Executions++
	e.C.Eval(1)
	e.C.AddTraces(1)
	e.C.AddTrans(int64(len(s.Points)))
	if s.Hung != "" {
		e.C.Require(false, "%s: %s", e.Name, s.Hung)
		return s
	}
	if s.Diverged != "" {
		e.C.Require(false, "%s: replay divergence: %s", e.Name, s.Diverged)
		return s
	}
	if s.Deadlock {
		e.Deadlocks++
		out = "deadlock:" + out
	}
	if e.Outcomes == nil {
		e.Outcomes = map[string]int64{}
	}
	if _, ok := e.Outcomes[out]; !ok {
		e.C.Distinct(e.Name + "|" + out)
		e.C.Sample(map[string]any{"scenario": e.Name, "schedule": s.Trace, "outcome": out})
	}
	e.Outcomes[out]++
	e.C.Outcome(e.Name + "|" + out)
	if len(s.Points) > e.MaxPoints {
		e.MaxPoints = len(s.Points)
	}
	for _, v := range viol {
		choices := append([]int(nil), s.Choices...)
		key, desc := v[0], v[1]
		// determinism gate: the same choice list must fail the same way 5x
		ok := true
		for i := 0; i < 5 && ok; i++ {
			s2 := &Sched{prefix: choices, yielded: make(chan *thread), locks: map[any]*lockState{}, timeout: s.timeout}
			again := false
			e.Body(s2, func(k, d string) {
				if k == key {
					again = true
				}
			})
			ok = again && s2.Diverged == "" && s2.Hung == ""
		}
		if !ok {
			e.C.Require(false, "%s: violation %s not reproducible from its schedule %v", e.Name, key, choices)
			continue
		}
		e.C.Violation(key, desc, map[string]any{"scenario": e.Name, "choices": choices, "schedule": s.Trace})
	}
	return s
}

// Run performs the DFS. Returns false if the wall-clock cap stopped it.
func (e *Explorer) Run() bool {
	e.Complete = true
	if FreeRunning() {
		// race pass: the same body on uncontrolled goroutines, a fixed number
		// of times; oracle reports are ignored here (the schedule exploration
		// is what decides the property), only the race detector speaks.
		n := e.FreeIters
		if n == 0 {
			n = 6
		}
		for i := 0; i < n; i++ {
			e.Body(&Sched{free: true}, func(k, d string) {})
			e.Executions++
			FreeExecutions.Add(1)
		}
		return true
	}
	e.explore(nil)
	e.C.AddStates(e.Executions)
	return e.Complete
}

func (e *Explorer) explore(prefix []int) {
	if e.C.Expired("schedule DFS " + e.Name) {
		e.Complete = false
		return
	}
	if e.C.Violations() > 0 {
		// a counterexample exists (fewest deviations first); stop early
		e.C.Capped("stopped at first violation")
		e.Complete = false
		return
	}
	x := e.runOne(prefix)
	if x.Hung != "" || x.Diverged != "" {
		e.Complete = false
		return
	}
	pre := 0
	for i := 0; i < len(x.Points); i++ {
		p := x.Points[i]
		if i >= len(prefix) {
			cost := pre
			if p.RunningStillEnabled {
				cost++
			}
			if e.Bound < 0 || cost <= e.Bound {
				for alt := 1; alt < len(p.Enabled); alt++ {
					np := append(append(make([]int, 0, i+1), x.Choices[:i]...), alt)
					e.explore(np)
					if !e.Complete {
						return
					}
				}
			}
		}
		if p.RunningStillEnabled && p.Chosen != 0 {
			pre++
		}
	}
}

// FreeRunning reports whether this process is the separate free-running pass
// (go test -race, VERIF_FREE=1): explorations then run their bodies on plain
// goroutines instead of the controlled scheduler.
func FreeRunning() bool { return os.Getenv("VERIF_FREE") != "" }

// FreeExecutions counts the bodies executed by the free-running pass.
var FreeExecutions atomic.Int64

// RacePassDone prints the line the wrapper reads.
func RacePassDone(id string) {
	fmt.Printf("VERIF-RACE property=%s iterations=%d\n", id, FreeExecutions.Load())
}
