// Package fixc holds deterministic fixtures shared by the storage, kernel and
// p2p harnesses: keys, addresses, a generated N-node genesis and transaction
// builders. It may import common/crypto/config only (not storage/kernel), so
// in-package harnesses of those packages can use it.
package fixc

import (
	"fmt"

	"github.com/MixinNetwork/mixin/common"
	"github.com/MixinNetwork/mixin/crypto"
)

// Seed64 returns a deterministic 64-byte seed for a label.
func Seed64(label string) []byte {
	a := crypto.Blake3Hash([]byte("verif-seed-a:" + label))
	b := crypto.Blake3Hash([]byte("verif-seed-b:" + label))
	return append(a[:], b[:]...)
}

// Key returns a deterministic private key.
func Key(label string) crypto.Key { return crypto.NewKeyFromSeed(Seed64(label)) }

// Hash returns a deterministic hash.
func Hash(label string) crypto.Hash { return crypto.Blake3Hash([]byte("verif-hash:" + label)) }

// Addr returns an ordinary deterministic address (independent view key).
func Addr(label string) common.Address { return common.NewAddressFromSeed(Seed64("addr:" + label)) }

// NodeAddr returns a node-style address: the private view key is derived from
// the public spend key as kernel.loadNodeConfig does.
func NodeAddr(label string) common.Address {
	var a common.Address
	a.PrivateSpendKey = Key("node:" + label)
	a.PublicSpendKey = a.PrivateSpendKey.Public()
	a.PrivateViewKey = a.PublicSpendKey.DeterministicHashDerive()
	a.PublicViewKey = a.PrivateViewKey.Public()
	return a
}

// Net is a generated genesis network.
type Net struct {
	Genesis    *common.Genesis
	Signers    []common.Address
	Payees     []common.Address
	Custodians []common.Address
	Custodian  common.Address // the genesis custodian account (private keys known)
	NetworkId  crypto.Hash
	Epoch      uint64
	NodeIds    []crypto.Hash // in genesis order
}

// EpochSec is the genesis epoch of generated networks: 2019-02-28T00:00:00Z
// (the mainnet epoch, so that epoch-hour windows are the documented ones).
const EpochSec = 1551312000

// NewNet builds an n-node genesis with deterministic keys. tag varies the keys.
func NewNet(n int, tag string) *Net {
	net := &Net{}
	g := &common.Genesis{Epoch: EpochSec}
	for i := 0; i < n; i++ {
		s := NodeAddr(fmt.Sprintf("%s-signer-%d", tag, i))
		p := NodeAddr(fmt.Sprintf("%s-payee-%d", tag, i))
		c := Addr(fmt.Sprintf("%s-custodian-%d", tag, i))
		net.Signers = append(net.Signers, s)
		net.Payees = append(net.Payees, p)
		net.Custodians = append(net.Custodians, c)
		sp, pp, cp := pub(s), pub(p), pub(c)
		g.Nodes = append(g.Nodes, &struct {
			Signer    *common.Address `json:"signer"`
			Payee     *common.Address `json:"payee"`
			Custodian *common.Address `json:"custodian"`
			Balance   common.Integer  `json:"balance"`
		}{Signer: &sp, Payee: &pp, Custodian: &cp, Balance: common.KernelNodePledgeAmount})
	}
	net.Custodian = Addr(tag + "-genesis-custodian")
	cp := pub(net.Custodian)
	g.Custodian = &cp
	net.Genesis = g
	net.NetworkId = g.NetworkId()
	net.Epoch = g.EpochTimestamp()
	for i := range net.Signers {
		net.NodeIds = append(net.NodeIds, net.Signers[i].Hash().ForNetwork(net.NetworkId))
	}
	return net
}

func pub(a common.Address) common.Address {
	return common.Address{PublicSpendKey: a.PublicSpendKey, PublicViewKey: a.PublicViewKey}
}

// Pub strips the private keys of an address.
func Pub(a common.Address) common.Address { return pub(a) }

// BTCChain / asset key used for the capped test asset.
var BTCAssetKey = "c6d0c728-2624-429b-8e0d-d9d19b6592fa"

// Deposit builds a custodian-signed deposit of amount of asset to the given
// receivers (script threshold t). extID is the external transaction id.
func (net *Net) Deposit(asset, chain crypto.Hash, assetKey, extID string, index uint64, amount common.Integer, to []*common.Address, t uint8, seedLabel string) *common.VersionedTransaction {
	tx := common.NewTransactionV5(asset)
	tx.AddDepositInput(&common.DepositData{Chain: chain, AssetKey: assetKey, Transaction: extID, Index: index, Amount: amount})
	tx.AddScriptOutput(to, common.NewThresholdScript(t), amount, Seed64("out:"+seedLabel))
	ver := tx.AsVersioned()
	if err := ver.SignRaw(net.Custodian.PrivateSpendKey); err != nil {
		panic(err)
	}
	return ver
}

// DepositBTC deposits the capped Bitcoin asset (capacity 2500).
func (net *Net) DepositBTC(extID string, amount string, to []*common.Address, t uint8) *common.VersionedTransaction {
	return net.Deposit(common.BitcoinAssetId, common.BitcoinAssetId, BTCAssetKey, extID, 0, common.NewIntegerFromString(amount), to, t, "btc:"+extID)
}

// DepositXIN deposits XIN (the asset info must match the genesis XIN asset).
func (net *Net) DepositXIN(extID string, amount string, to []*common.Address, t uint8) *common.VersionedTransaction {
	return net.Deposit(common.XINAssetId, common.XINAsset.Chain, common.XINAsset.AssetKey, extID, 0, common.NewIntegerFromString(amount), to, t, "xin:"+extID)
}

// Out describes one script output of a transfer.
type Out struct {
	To     []*common.Address
	T      uint8
	Amount string
}

// Transfer builds an unsigned script transaction spending the given inputs.
func Transfer(asset crypto.Hash, inputs []*common.Input, outs []Out, seedLabel string) *common.Transaction {
	tx := common.NewTransactionV5(asset)
	for _, in := range inputs {
		tx.AddInput(in.Hash, in.Index)
	}
	for i, o := range outs {
		tx.AddScriptOutput(o.To, common.NewThresholdScript(o.T), common.NewIntegerFromString(o.Amount), Seed64(fmt.Sprintf("out:%s:%d", seedLabel, i)))
	}
	return tx
}

// SignAll signs every input of tx with the given accounts (per input) through
// the real SignInput, reading keys from reader.
func SignAll(tx *common.Transaction, reader common.UTXOKeysReader, accounts [][]*common.Address) *common.VersionedTransaction {
	ver := tx.AsVersioned()
	for i := range ver.Inputs {
		if err := ver.SignInput(reader, i, accounts[i]); err != nil {
			panic(err)
		}
	}
	return ver
}
