package verifmc

import (
	"fmt"
	"sort"
	"sync"
)

// BFS is an explicit-state breadth-first search over event histories of the
// real implementation. A state is identified with the shortest event history
// that reaches it; a successor is computed on a *fresh* instance by replaying
// the parent history and applying one more event (live objects such as Badger
// stores and kernel nodes cannot be cloned).
//
// The harness keeps its reference model inside S and compares it with the
// implementation inside Apply (every transition is therefore a conformance
// step: traces_validated_against_impl == transitions).
type BFS[S any] struct {
	C *Check
	// NumEvents is the size of the event alphabet.
	NumEvents int
	// EventName renders event e for replay files and samples.
	EventName func(e int) string
	// New creates a fresh instance (worker is the worker index, usable for
	// per-worker scratch directories).
	New func(worker int) S
	// Apply executes event e on s through the real code, compares with the
	// reference model and reports violations through report. It returns
	// false when the event is not enabled in s (precondition of the driver,
	// not a rejection by the code); disabled events are not transitions.
	// replaying is true while a parent history is being replayed (oracles
	// have already been evaluated for those steps; implementations may skip
	// expensive checks).
	Apply func(s S, e int, replaying bool, report func(key, desc string)) bool
	// Key is the canonical key of the state (property-relevant fields only).
	Key func(s S) string
	// Close releases the instance.
	Close func(s S)
	// MaxDepth bounds the history length.
	MaxDepth int
	// MaxStates optionally caps the number of states (0 = none).
	MaxStates int
}

type bfsNode struct {
	hist []int
}

// Run explores and returns (states, transitions, depth completed, exhausted)
// where exhausted means the frontier became empty before MaxDepth cut it.
func (b *BFS[S]) Run() (states, transitions int64, depth int, exhausted bool) {
	c := b.C
	seen := map[string]struct{}{}
	var mu sync.Mutex

	root := b.New(0)
	k0 := b.Key(root)
	b.Close(root)
	seen[k0] = struct{}{}
	frontier := []bfsNode{{hist: nil}}
	states = 1
	c.AddStates(1)
	histStr := func(h []int) []string {
		out := make([]string, len(h))
		for i, e := range h {
			out[i] = b.EventName(e)
		}
		return out
	}

	for depth = 0; depth < b.MaxDepth && len(frontier) > 0; depth++ {
		var next []bfsNode
		type job struct{ n, e int }
		total := len(frontier) * b.NumEvents
		results := make([]*bfsNode, total)
		keys := make([]string, total)
		complete := c.ParallelN(total, fmt.Sprintf("bfs depth %d", depth+1), func(w, i int) {
			n, e := i/b.NumEvents, i%b.NumEvents
			h := frontier[n].hist
			s := b.New(w)
			defer b.Close(s)
			for _, pe := range h {
				if !b.Apply(s, pe, true, func(string, string) {}) {
					c.Require(false, "replay divergence: event %s disabled while replaying %v", b.EventName(pe), histStr(h))
					return
				}
			}
			nh := append(append(make([]int, 0, len(h)+1), h...), e)
			ok := b.Apply(s, e, false, func(key, desc string) {
				c.Violation(key, desc, map[string]any{"history": histStr(nh)})
			})
			if !ok {
				return
			}
			c.AddTrans(1)
			c.AddTraces(1)
			c.Eval(1)
			c.Outcome("event:" + b.EventName(e))
			keys[i] = b.Key(s)
			results[i] = &bfsNode{hist: nh}
		})
		// deterministic merge in index order
		for i := 0; i < total; i++ {
			if results[i] == nil {
				continue
			}
			transitions++
			mu.Lock()
			if _, ok := seen[keys[i]]; !ok {
				seen[keys[i]] = struct{}{}
				next = append(next, *results[i])
				states++
				c.AddStates(1)
				c.Distinct(keys[i])
				if len(results[i].hist) >= 2 {
					c.Sample(map[string]any{"history": histStr(results[i].hist)})
				}
			}
			mu.Unlock()
		}
		if !complete {
			c.Set("bfs_depth_completed", depth)
			return states, transitions, depth, false
		}
		frontier = next
		if b.MaxStates > 0 && int(states) >= b.MaxStates {
			c.Capped(fmt.Sprintf("state cap %d at depth %d", b.MaxStates, depth+1))
			depth++
			break
		}
	}
	exhausted = len(frontier) == 0
	c.Set("bfs_depth_completed", depth)
	c.Set("bfs_frontier_left", len(frontier))
	c.Set("bfs_frontier_exhausted", exhausted)
	return
}

// SortedKeys is a helper for canonical dumps of maps.
func SortedKeys[V any](m map[string]V) []string {
	ks := make([]string, 0, len(m))
	for k := range m {
		ks = append(ks, k)
	}
	sort.Strings(ks)
	return ks
}
