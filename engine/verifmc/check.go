// Package verifmc is the shared engine of the /verif model-checking harnesses.
// It is injected into the repository module as the virtual package
// github.com/MixinNetwork/mixin/verifmc through `go test -overlay` and must
// therefore depend on the standard library only.
package verifmc

import (
	"bufio"
	"crypto/sha256"
	"encoding/hex"
	"encoding/json"
	"fmt"
	"os"
	"path/filepath"
	"runtime"
	"sort"
	"strconv"
	"strings"
	"sync"
	"sync/atomic"
	"time"
)

// TB is the subset of *testing.T the engine needs (keeps this package free
// of the testing import so that it can be linked into non-test code too).
type TB interface {
	Helper()
	Logf(format string, args ...any)
	Errorf(format string, args ...any)
	Fatalf(format string, args ...any)
	Failed() bool
}

// Check collects counts, samples and violations of one property run and
// writes the evidence file.
type Check struct {
	t     TB
	ID    string
	Level string // exploration | fault_enumeration | model_checking
	tier  string
	seed  int64
	root  string
	start time.Time

	deadline time.Time
	capHit   atomic.Bool
	wallCap  atomic.Bool // the wall-clock cap (Expired) fired: coverage guards are void from then on
	capName  string

	evaluations atomic.Int64
	states      atomic.Int64
	transitions atomic.Int64
	traces      atomic.Int64

	mu        sync.Mutex
	distinct  map[[16]byte]struct{}
	outcomes  map[string]int64
	samples   []any
	extra     map[string]any
	assume    []string
	rule      string
	stricter  map[string]int64
	viol      []violation
	known     map[string]string // key -> description (from known_findings.txt)
	knownHit  map[string]int
	vacuity   []string
	skipped   []string // guards that failed after the wall-clock cap (reported, not fatal)
	finished  bool
	maxSample int
}

type violation struct {
	Key    string `json:"key"`
	Desc   string `json:"desc"`
	Replay any    `json:"replay"`
	path   string
}

// Start begins a run of property id. level is the evidence level.
func Start(t TB, id, level string) *Check {
	c := &Check{t: t, ID: id, Level: level, start: time.Now()}
	c.tier = os.Getenv("VERIF_TIER")
	if c.tier != "thorough" {
		c.tier = "quick"
	}
	c.seed, _ = strconv.ParseInt(os.Getenv("VERIF_SEED"), 10, 64)
	c.root = os.Getenv("VERIF_ROOT")
	if c.root == "" {
		c.root = "/verif"
	}
	c.distinct = make(map[[16]byte]struct{})
	c.outcomes = make(map[string]int64)
	c.extra = make(map[string]any)
	c.stricter = make(map[string]int64)
	c.known = make(map[string]string)
	c.knownHit = make(map[string]int)
	c.maxSample = 6
	c.loadKnown()
	// default internal wall-clock caps; a capped run is exhaustive:false, exit 0
	capS := 240
	if c.tier == "thorough" {
		capS = 3000
	}
	if v, err := strconv.Atoi(os.Getenv("VERIF_CAP_S")); err == nil && v > 0 {
		capS = v
	}
	c.deadline = c.start.Add(time.Duration(capS) * time.Second)
	return c
}

func (c *Check) loadKnown() {
	f, err := os.Open(filepath.Join(c.root, "known_findings.txt"))
	if err != nil {
		return
	}
	defer f.Close()
	sc := bufio.NewScanner(f)
	for sc.Scan() {
		line := strings.TrimSpace(sc.Text())
		// known: property=C10 key=<key without spaces> free text
		if !strings.HasPrefix(line, "known:") {
			continue
		}
		fields := strings.Fields(line[len("known:"):])
		if len(fields) < 2 || fields[0] != "property="+c.ID || !strings.HasPrefix(fields[1], "key=") {
			continue
		}
		c.known[strings.TrimPrefix(fields[1], "key=")] = strings.Join(fields[2:], " ")
	}
}

func (c *Check) Tier() string   { return c.tier }
func (c *Check) Thorough() bool { return c.tier == "thorough" }
func (c *Check) Seed() int64    { return c.seed }
func (c *Check) Root() string   { return c.root }
func (c *Check) Workers() int {
	n := runtime.NumCPU()
	if v, err := strconv.Atoi(os.Getenv("VERIF_WORKERS")); err == nil && v > 0 {
		n = v
	}
	return n
}

// Pick returns q in the quick tier and th in the thorough tier.
func Pick[T any](c *Check, q, th T) T {
	if c.Thorough() {
		return th
	}
	return q
}

// Expired reports whether the internal wall-clock cap was reached; the first
// caller that sees it records the named cap. A capped run reports
// exhaustive:false and still exits 0 unless a violation was found.
func (c *Check) Expired(what string) bool {
	if time.Now().Before(c.deadline) {
		return false
	}
	c.wallCap.Store(true)
	if c.capHit.CompareAndSwap(false, true) {
		c.mu.Lock()
		c.capName = what
		c.mu.Unlock()
	}
	return true
}

// Capped marks the run as not exhaustive for a named reason (e.g. a depth cap
// that left a non-empty frontier).
func (c *Check) Capped(what string) {
	if c.capHit.CompareAndSwap(false, true) {
		c.mu.Lock()
		c.capName = what
		c.mu.Unlock()
	}
}

func (c *Check) Eval(n int64)        { c.evaluations.Add(n) }
func (c *Check) AddStates(n int64)   { c.states.Add(n) }
func (c *Check) AddTrans(n int64)    { c.transitions.Add(n) }
func (c *Check) AddTraces(n int64)   { c.traces.Add(n) }
func (c *Check) Evaluations() int64  { return c.evaluations.Load() }
func (c *Check) SetRule(r string)    { c.mu.Lock(); c.rule = r; c.mu.Unlock() }
func (c *Check) Assume(a ...string)  { c.mu.Lock(); c.assume = append(c.assume, a...); c.mu.Unlock() }
func (c *Check) Set(k string, v any) { c.mu.Lock(); c.extra[k] = v; c.mu.Unlock() }
func (c *Check) Add(k string, n int64) {
	c.mu.Lock()
	old, _ := c.extra[k].(int64)
	c.extra[k] = old + n
	c.mu.Unlock()
}

// Distinct records a canonical key of a non-trivial case; returns true when
// the key was new.
func (c *Check) Distinct(key string) bool {
	h := sha256.Sum256([]byte(key))
	var k [16]byte
	copy(k[:], h[:16])
	c.mu.Lock()
	_, ok := c.distinct[k]
	if !ok {
		c.distinct[k] = struct{}{}
	}
	c.mu.Unlock()
	return !ok
}

func (c *Check) DistinctCount() int {
	c.mu.Lock()
	defer c.mu.Unlock()
	return len(c.distinct)
}

// Outcome counts an observed outcome class (accept / reject:<why> / ...).
func (c *Check) Outcome(o string) {
	c.mu.Lock()
	c.outcomes[o]++
	c.mu.Unlock()
}

func (c *Check) OutcomeCount(o string) int64 {
	c.mu.Lock()
	defer c.mu.Unlock()
	return c.outcomes[o]
}

// Stricter records a case where the code rejected something the statement
// would allow. Informational only, never a violation.
func (c *Check) Stricter(what string) {
	c.mu.Lock()
	c.stricter[what]++
	c.mu.Unlock()
}

// Sample keeps the first few cases written out for the evidence file.
func (c *Check) Sample(s any) {
	c.mu.Lock()
	if len(c.samples) < c.maxSample {
		c.samples = append(c.samples, s)
	}
	c.mu.Unlock()
}

// Violation records a property violation. key is the canonical key of the
// failing input class (matched against known_findings.txt), replay is any
// JSON-serialisable recipe that reproduces it.
func (c *Check) Violation(key, desc string, replay any) {
	key = strings.ReplaceAll(key, " ", "_")
	c.mu.Lock()
	defer c.mu.Unlock()
	if kd, ok := c.known[key]; ok {
		c.knownHit[key]++
		_ = kd
		return
	}
	for _, v := range c.viol {
		if v.Key == key {
			return // one replay file per canonical key
		}
	}
	if len(c.viol) >= 20 {
		return
	}
	c.viol = append(c.viol, violation{Key: key, Desc: desc, Replay: replay})
}

func (c *Check) Violations() int {
	c.mu.Lock()
	defer c.mu.Unlock()
	return len(c.viol)
}

// Require is a vacuity guard: if cond is false the run is reported as broken
// (exit 2 through t.Errorf, no VIOLATION line).
func (c *Check) Require(cond bool, format string, args ...any) {
	if cond {
		return
	}
	c.mu.Lock()
	if c.wallCap.Load() {
		// the run was cut by the wall-clock cap (exhaustive:false): a coverage
		// guard evaluated afterwards says nothing about the harness and must not
		// turn a capped run into a broken one
		c.skipped = append(c.skipped, fmt.Sprintf(format, args...))
	} else {
		c.vacuity = append(c.vacuity, fmt.Sprintf(format, args...))
	}
	c.mu.Unlock()
}

// Finish writes the evidence file and prints the verdict lines. It must be
// called exactly once at the end of the test (defer it).
func (c *Check) Finish() {
	c.mu.Lock()
	if c.finished {
		c.mu.Unlock()
		return
	}
	c.finished = true
	c.mu.Unlock()

	wall := time.Since(c.start).Seconds()
	// write replay files
	for i := range c.viol {
		v := &c.viol[i]
		dir := filepath.Join(c.root, "replays")
		_ = os.MkdirAll(dir, 0o755)
		h := sha256.Sum256([]byte(v.Key))
		p := filepath.Join(dir, fmt.Sprintf("%s-%s.json", c.ID, hex.EncodeToString(h[:6])))
		b, _ := json.MarshalIndent(map[string]any{"property": c.ID, "key": v.Key, "desc": v.Desc, "replay": v.Replay}, "", " ")
		_ = os.WriteFile(p, b, 0o644)
		v.path = p
	}

	cov := map[string]any{}
	for k, v := range c.extra {
		cov[k] = v
	}
	cov["evaluations"] = c.evaluations.Load()
	cov["distinct_nontrivial"] = len(c.distinct)
	cov["rule"] = c.rule
	if len(c.samples) == 0 {
		c.samples = append(c.samples, "no sample recorded")
	}
	cov["samples"] = c.samples
	cov["distinct_outcomes"] = len(c.outcomes)
	cov["outcomes"] = c.outcomes
	if len(c.stricter) > 0 {
		cov["stricter_than_statement"] = c.stricter
	}
	cov["exhaustive"] = !c.capHit.Load()
	if len(c.skipped) > 0 {
		sk := c.skipped
		if len(sk) > 20 {
			sk = sk[:20]
		}
		cov["guards_void_after_wall_cap"] = sk
	}
	if c.capHit.Load() {
		cov["cap_hit"] = c.capName
	}
	if c.Level == "model_checking" {
		cov["states"] = c.states.Load()
		cov["transitions"] = c.transitions.Load()
		cov["traces_validated_against_impl"] = c.traces.Load()
	} else {
		if s := c.states.Load(); s > 0 {
			cov["states"] = s
		}
		if s := c.transitions.Load(); s > 0 {
			cov["transitions"] = s
		}
	}
	var kn []string
	for k, n := range c.knownHit {
		kn = append(kn, fmt.Sprintf("%s (%d cases)", k, n))
	}
	sort.Strings(kn)
	if len(kn) > 0 {
		cov["known_findings_reproduced"] = kn
	}
	ev := map[string]any{
		"property_id": c.ID,
		"tier":        c.tier,
		"seed":        c.seed,
		"level":       c.Level,
		"coverage":    cov,
		"assumptions": c.assume,
		"wall_s":      wall,
		"violations":  len(c.viol),
	}
	if c.assume == nil {
		ev["assumptions"] = []string{}
	}
	b, err := json.MarshalIndent(ev, "", " ")
	if err != nil {
		c.t.Fatalf("evidence marshal: %v", err)
	}
	dir := filepath.Join(c.root, "evidence")
	_ = os.MkdirAll(dir, 0o755)
	if os.Getenv("VERIF_NO_EVIDENCE") == "" {
		if err := os.WriteFile(filepath.Join(dir, c.ID+".json"), b, 0o644); err != nil {
			c.t.Fatalf("evidence write: %v", err)
		}
	}

	keys := make([]string, 0, len(c.knownHit))
	for k := range c.knownHit {
		keys = append(keys, k)
	}
	sort.Strings(keys)
	for _, k := range keys {
		fmt.Printf("KNOWN-FINDING: property=%s key=%s %s (%d cases)\n", c.ID, k, c.known[k], c.knownHit[k])
	}
	for _, v := range c.viol {
		fmt.Printf("VIOLATION property=%s replay=%s\n", c.ID, v.path)
		fmt.Printf("  key=%s %s\n", v.Key, v.Desc)
	}
	fmt.Printf("VERIF-SUMMARY property=%s tier=%s evaluations=%d distinct=%d states=%d transitions=%d outcomes=%d exhaustive=%v violations=%d wall_s=%.1f\n",
		c.ID, c.tier, c.evaluations.Load(), len(c.distinct), c.states.Load(), c.transitions.Load(), len(c.outcomes), !c.capHit.Load(), len(c.viol), wall)
	if len(c.viol) > 0 {
		c.t.Errorf("%d violation(s) of %s", len(c.viol), c.ID)
	}
	for _, v := range c.skipped {
		fmt.Printf("VERIF-NOTE property=%s guard void after the wall-clock cap: %s\n", c.ID, v)
	}
	if len(c.viol) == 0 && len(c.vacuity) > 0 {
		for _, v := range c.vacuity {
			fmt.Printf("VERIF-BROKEN property=%s vacuity/harness guard failed: %s\n", c.ID, v)
		}
		c.t.Errorf("harness guard failed for %s", c.ID)
	}
}

// Catch runs f and returns the recovered panic value (nil if none).
func Catch(f func()) (p any) {
	defer func() {
		if r := recover(); r != nil {
			p = r
			if p == nil {
				p = "nil panic"
			}
		}
	}()
	f()
	return nil
}

// PanicSite returns a short description of where the current panic happened:
// the innermost stack frames that belong to the repository (not the harness).
func PanicSite() string {
	buf := make([]byte, 16384)
	n := runtime.Stack(buf, false)
	lines := strings.Split(string(buf[:n]), "\n")
	var out []string
	for i := 0; i+1 < len(lines); i++ {
		l := strings.TrimSpace(lines[i+1])
		if strings.Contains(l, repoPrefix()) && !strings.Contains(l, "zzverif") && !strings.Contains(l, "/verifmc/") && strings.Contains(l, ".go:") {
			fn := strings.TrimSpace(lines[i])
			if j := strings.LastIndex(fn, "("); j > 0 {
				fn = fn[:j]
			}
			if j := strings.LastIndex(fn, "/"); j >= 0 {
				fn = fn[j+1:]
			}
			out = append(out, fn)
			if len(out) >= 3 {
				break
			}
		}
	}
	return strings.Join(out, "<")
}

func repoPrefix() string {
	if r := os.Getenv("VERIF_REPO"); r != "" {
		return strings.TrimRight(r, "/") + "/"
	}
	return "/repo/"
}

// OutcomeN counts n occurrences of an outcome class at once.
func (c *Check) OutcomeN(o string, n int64) {
	c.mu.Lock()
	c.outcomes[o] += n
	c.mu.Unlock()
}

// CatchSite runs f; on panic returns the value and the repository frames.
func CatchSite(f func()) (p any, site string) {
	defer func() {
		if r := recover(); r != nil {
			p = r
			site = PanicSite()
		}
	}()
	f()
	return nil, ""
}

// Hex is a short helper for samples.
func Hex(b []byte) string {
	if len(b) > 48 {
		return hex.EncodeToString(b[:48]) + fmt.Sprintf("…(%dB)", len(b))
	}
	return hex.EncodeToString(b)
}
