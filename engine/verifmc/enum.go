package verifmc

import (
	"fmt"
	"sync"
)

// ViolationChecked re-executes recheck 5 times (determinism gate). Only if
// every re-execution reproduces the failure is the violation recorded;
// otherwise the run is reported as broken (harness nondeterminism).
func (c *Check) ViolationChecked(key, desc string, replay any, recheck func() bool) {
	for i := 0; i < 5; i++ {
		if !recheck() {
			c.Require(false, "nondeterministic failure for key %s (%s): replay %d did not reproduce", key, desc, i)
			return
		}
	}
	c.Violation(key, desc, replay)
}

// ParallelN calls fn(worker, i) for every i in [0,n) using the check's worker
// count; fn must be safe for concurrent use. It stops early (returning false)
// only when the wall-clock cap expires.
func (c *Check) ParallelN(n int, what string, fn func(worker, i int)) bool {
	w := c.Workers()
	if w > n {
		w = n
	}
	if w < 1 {
		w = 1
	}
	var wg sync.WaitGroup
	var next int64
	var mu sync.Mutex
	complete := true
	for k := 0; k < w; k++ {
		wg.Add(1)
		go func(k int) {
			defer wg.Done()
			for {
				mu.Lock()
				i := next
				next++
				mu.Unlock()
				if i >= int64(n) {
					return
				}
				if i%64 == 0 && c.Expired(what) {
					mu.Lock()
					complete = false
					mu.Unlock()
					return
				}
				fn(k, int(i))
			}
		}(k)
	}
	wg.Wait()
	return complete
}

// Product enumerates the full mixed-radix product of the given radices and
// calls fn with the digit vector (reused between calls; copy if kept).
func Product(radices []int, fn func(d []int) bool) int64 {
	for _, r := range radices {
		if r <= 0 {
			return 0
		}
	}
	d := make([]int, len(radices))
	var n int64
	for {
		n++
		if !fn(d) {
			return n
		}
		i := len(d) - 1
		for ; i >= 0; i-- {
			d[i]++
			if d[i] < radices[i] {
				break
			}
			d[i] = 0
		}
		if i < 0 {
			return n
		}
	}
}

// ProductSize is the number of elements of the product.
func ProductSize(radices []int) int64 {
	n := int64(1)
	for _, r := range radices {
		n *= int64(r)
	}
	return n
}

// Digits decodes index i of the mixed-radix product (last digit fastest).
func Digits(radices []int, i int64, d []int) []int {
	if d == nil {
		d = make([]int, len(radices))
	}
	for k := len(radices) - 1; k >= 0; k-- {
		d[k] = int(i % int64(radices[k]))
		i /= int64(radices[k])
	}
	return d
}

// Subsets calls fn for every subset of {0..n-1} given as bit mask, in
// increasing mask order (n <= 30).
func Subsets(n int, fn func(mask uint32, members []int)) {
	if n > 30 {
		panic("Subsets: n too large")
	}
	buf := make([]int, 0, n)
	for m := uint32(0); m < 1<<uint(n); m++ {
		buf = buf[:0]
		for i := 0; i < n; i++ {
			if m&(1<<uint(i)) != 0 {
				buf = append(buf, i)
			}
		}
		fn(m, buf)
	}
}

// Permutations calls fn with every permutation of {0..n-1} (Heap's
// algorithm; slice reused).
func Permutations(n int, fn func(p []int)) {
	p := make([]int, n)
	for i := range p {
		p[i] = i
	}
	var rec func(k int)
	rec = func(k int) {
		if k <= 1 {
			fn(p)
			return
		}
		for i := 0; i < k; i++ {
			rec(k - 1)
			if k%2 == 0 {
				p[i], p[k-1] = p[k-1], p[i]
			} else {
				p[0], p[k-1] = p[k-1], p[0]
			}
		}
	}
	rec(n)
}

// Sequences calls fn with every sequence over an alphabet of size k with
// length in [minLen,maxLen], shortest first.
func Sequences(k, minLen, maxLen int, fn func(s []int) bool) {
	for l := minLen; l <= maxLen; l++ {
		if l == 0 {
			if !fn(nil) {
				return
			}
			continue
		}
		r := make([]int, l)
		for i := range r {
			r[i] = k
		}
		stop := false
		Product(r, func(d []int) bool {
			if !fn(d) {
				stop = true
				return false
			}
			return true
		})
		if stop {
			return
		}
	}
}

// KeyOf renders a canonical key.
func KeyOf(parts ...any) string {
	return fmt.Sprint(parts...)
}
